#!/venv/bin/python
"""Self-validation: apply hand-written realistic breaks to a scratch copy of the repository
and confirm that the quick tier of the named check fires (exit 1) - see DESIGN.md section 6.

usage: tools/mutants.py [--only NAME_SUBSTR] [--prop C07] [--tests] [--jobs N]
Scratch copies live under /tmp/vmut and are removed immediately.
"""
import argparse
import concurrent.futures as cf
import json
import os
import shutil
import subprocess
import sys
from pathlib import Path

VERIF = Path(__file__).resolve().parent.parent
sys.path.insert(0, str(VERIF))
from tools.mutant_catalog import MUTANTS  # noqa

BASELINE = ["/venv/bin/python", "-m", "pytest", "-q", "-x", "-p", "no:cacheprovider", "--timeout=900",
            "--deselect", "tests/test_cij_cli_run.py", "--deselect", "tests/test_cij_cli_static.py",
            "--deselect", "tests/test_cij_io_traditional.py::test_validate_input01[examples/bridgmanite/input01]"]


def run_one(m, tests):
    name = m["name"]
    wd = f"/tmp/vmut/{name}"
    shutil.rmtree(wd, ignore_errors=True)
    os.makedirs(wd)
    try:
        subprocess.run(["rsync", "-a", "--exclude", ".git", "--exclude", "__pycache__", "--exclude", "docs", "/repo/", wd + "/"], check=True)
        for f, old, new in m["edits"]:
            p = os.path.join(wd, f)
            s = open(p).read()
            if s.count(old) < 1:
                return name, "EDIT-NOT-APPLICABLE", "", None
            s = s.replace(old, new, 1) if not m.get("all") else s.replace(old, new)
            open(p, "w").write(s)
        res = {}
        for prop in m["props"]:
            env = dict(os.environ, VERIF_REPO=wd)
            p = subprocess.run([str(VERIF / "vcheck"), prop, "--tier", "quick", "--no-evidence"], env=env, capture_output=True, text=True,
                               timeout=1800)
            mech = [ln.strip() for ln in p.stdout.splitlines() if ln.strip().startswith("mechanism:")]
            res[prop] = (p.returncode, mech[:3], p.stdout[-300:] if p.returncode not in (0, 1) else "")
        t = None
        if tests:
            env = dict(os.environ, PYTHONPATH=wd)
            pt = subprocess.run(BASELINE, cwd=wd, env=env, capture_output=True, text=True)
            t = pt.returncode == 0
        return name, res, m.get("why", ""), t
    finally:
        shutil.rmtree(wd, ignore_errors=True)


def main():
    ap = argparse.ArgumentParser()
    ap.add_argument("--only")
    ap.add_argument("--prop")
    ap.add_argument("--tests", action="store_true")
    ap.add_argument("--jobs", type=int, default=4)
    a = ap.parse_args()
    ms = [m for m in MUTANTS if (not a.only or a.only in m["name"]) and (not a.prop or a.prop in m["props"])]
    missed = 0
    with cf.ThreadPoolExecutor(a.jobs) as ex:
        for name, res, why, t in ex.map(lambda m: run_one(m, a.tests), ms):
            if isinstance(res, str):
                print(f"{name:44s} {res}")
                continue
            for prop, (rc, mech, tail) in res.items():
                verdict = "CAUGHT" if rc == 1 else ("MISSED" if rc == 0 else f"rc={rc}")
                if rc != 1:
                    missed += 1
                tt = "" if t is None else (" tests-pass" if t else " TESTS-FAIL(not a realistic mutant)")
                print(f"{name:44s} {prop} {verdict}{tt}  {mech[0][:110] if mech else tail}")
    print(f"{missed} not caught")
    return 1 if missed else 0


if __name__ == "__main__":
    sys.exit(main())
