#!/bin/sh
# silence sweeps on the unchanged tree: quick tier over several seeds, then every thorough tier (no evidence written)
cd "$(dirname "$0")/.." || exit 2
ALL="C01 C02 C03 C04 C05 C06 C07 C08 C09 C10 C11 C12 C13 C14 C15 C16 C17 C18 C19 C20"
if [ "$1" != "thorough-only" ]; then
for s in ${SEEDS:-1 2 3 7 11 12345}; do
  for c in $ALL; do
    VERIF_SEED=$s ./vcheck $c --tier quick --no-evidence > /tmp/sweep.$$ 2>&1; rc=$?
    echo "quick seed=$s $c rc=$rc $(grep -E '^C[0-9]+ tier' /tmp/sweep.$$ | cut -c1-140)"
    [ $rc -ne 0 ] && grep -E -A3 "VIOLATION|INCONCLUSIVE" /tmp/sweep.$$ | cut -c1-400
  done
done
fi
if [ "$1" != "quick-only" ]; then
for c in $ALL; do
  VERIF_SEED=${TSEED:-0} ./vcheck $c --tier thorough --no-evidence > /tmp/sweep.$$ 2>&1; rc=$?
  echo "thorough seed=${TSEED:-0} $c rc=$rc $(grep -E '^C[0-9]+ tier' /tmp/sweep.$$ | cut -c1-140)"
  [ $rc -ne 0 ] && grep -E -A3 "VIOLATION|INCONCLUSIVE" /tmp/sweep.$$ | cut -c1-400
done
fi
rm -f /tmp/sweep.$$
