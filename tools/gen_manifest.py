#!/venv/bin/python
"""Regenerate MANIFEST.json from rtmon.checks.META and the check modules present."""
import json
import os
import subprocess
import sys
from pathlib import Path

VERIF = Path(__file__).resolve().parent.parent
sys.path.insert(0, str(VERIF))
from rtmon.checks import META  # noqa
from rtmon.checks.manifest_text import TEXT  # noqa

BASELINE = ("cd /repo && /venv/bin/python -m pytest -ra -q -p no:cacheprovider --timeout=900 "
            "--continue-on-collection-errors")


def fix_commits():
    out = subprocess.run(["git", "-C", "/repo", "log", "--format=%H %s"], capture_output=True, text=True).stdout
    return [ln.split()[0] for ln in out.splitlines() if ln.split(" ", 1)[1].startswith("fix:")]


def main():
    checks, na = [], []
    for pid in sorted(META):
        mod = VERIF / "rtmon" / "checks" / f"{pid.lower()}.py"
        t = TEXT.get(pid)
        if not mod.exists() or t is None:
            na.append({"property_id": pid, "reason": "check not built yet (work in progress; runtime monitoring does apply, see DESIGN.md section 5)"})
            continue
        checks.append({
            "property_id": pid,
            "quick_cmd": f"./vcheck {pid} --tier quick",
            "thorough_cmd": f"./vcheck {pid} --tier thorough",
            "evidence_file": f"evidence/{pid}.json",
            "replay_cmd_template": f"./vcheck {pid} --replay {{path}}",
            "engine": "rtmon",
            "level_claimed": {"category": "exploration", "text": t["level"], "design_ref": f"DESIGN.md section 5, {pid}"},
            "level_note": t["note"],
            "technique": t["technique"],
        })
    man = {
        "version": 1,
        "setup_cmd": "/venv/bin/python -c \"import sys; sys.path.insert(0,'.'); from rtmon.runner import ensure_deps; ensure_deps()\"",
        "hooks": {
            "guard": "MINERALSCLOUD_CIJ_VERIF",
            "enable": "no in-repository hook exists: every monitor is attached from /verif at import time "
                      "(wrappers on the real classes/functions, LazyProperty hooks, sys.monitoring counters, audit hooks); "
                      "the guard variable is reserved and currently unused",
            "baseline_off_cmd": BASELINE,
            "source_commits": [],
            "add_only": True,
        },
        "engines": [{
            "name": "rtmon", "path": "rtmon/",
            "serves_properties": [c["property_id"] for c in checks],
            "kind_free_text": "runtime monitoring: the real cij code is executed under generated/hostile workloads while "
                              "monitors hooked onto its functions compare every observation with independent reference "
                              "models (oracles that never import cij or qha)",
        }],
        "checks": checks,
        "not_applicable": na,
        "notes": "There are no guarded hook commits in /repo (hooks.source_commits is empty). Unguarded 'fix:' commits "
                 "repairing genuine defects (see known_findings.json): " + ", ".join(fix_commits()) +
                 ". Exit codes: 0 held on what was observed, 1 violation, 2 inconclusive (never folded into the others).",
    }
    with open(VERIF / "MANIFEST.json", "w") as fp:
        json.dump(man, fp, indent=1)
        fp.write("\n")
    import jsonschema
    jsonschema.validate(man, json.load(open("/root/.vp/MANIFEST.schema.json")))
    print(f"MANIFEST.json: {len(checks)} checks, {len(na)} not_applicable")


if __name__ == "__main__":
    main()
