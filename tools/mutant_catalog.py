"""Hand-written realistic breaks ("catches" lists of DESIGN.md section 5).  Each must make the
named check's quick tier exit 1.  edits = [(file, old, new)], first occurrence replaced."""

NS = "cij/core/phonon_contribution/nonshear.py"
SH = "cij/core/phonon_contribution/shear.py"
TK = "cij/core/tasks.py"
VO = "cij/util/voigt.py"
FI = "cij/util/fill.py"
CF = "cij/io/config/config.py"

MUTANTS = [
    # ---- C10 -----------------------------------------------------------------------------
    dict(name="c10-voigt-4-6-swapped-in-table", props=["C10"], edits=[(VO, "4: (2, 3),", "4: (1, 2),"), (VO, "6: (1, 2)", "6: (2, 3)")]),
    dict(name="c10-sort-by-tuple-not-voigt", props=["C10"], edits=[(VO, "StrainRepresentation.from_standard(k, l),\n            ), key=lambda e: e.voigt)", "StrainRepresentation.from_standard(k, l),\n            ))")]),
    dict(name="c10-multiplicity-shift", props=["C10", "C03"], edits=[(VO, "<< (self.j.i != self.j.j)", "<< (self.j.i != self.j.i)")]),
    dict(name="c10-shear-set-45", props=["C10"], edits=[(VO, "return self.i.voigt in {4, 5, 6} or self.j.voigt in {4, 5, 6}", "return self.i.voigt in {4, 5, 6} or self.j.voigt in {4, 5}")]),
    dict(name="c10-accepts-voigt-0", props=["C10"], edits=[(VO, "        if i not in VOIGT_TO_STANDARD.keys():\n            raise RuntimeError(f\"Invalid voigt index {i}\")\n", "        i = i or 1\n")]),
    # ---- C03 -----------------------------------------------------------------------------
    dict(name="c03-T-vs-Ttranspose", props=["C03"], edits=[(SH, "self.transformation_matrix.T @ strain @ self.transformation_matrix", "self.transformation_matrix @ strain @ self.transformation_matrix.T")]),
    dict(name="c03-missing-factor-2", props=["C03"], edits=[(SH, "return 2 * strain_energy_difference", "return strain_energy_difference")]),
    dict(name="c03-target-skip-dropped", props=["C03"], edits=[(SH, "        if target and key == target: continue\n\n        _moduli", "        _moduli")]),
    dict(name="c03-energy-half-dropped", props=["C03"], edits=[(SH, "fictitious_strain[k,l] / 2", "fictitious_strain[k,l]")]),
    # ---- C01 -----------------------------------------------------------------------------
    dict(name="c01-offdiag-prefactor-1-5", props=["C01"], edits=[(NS, "            1 / 15 / numpy.prod(self.e, axis=0),\n            (1 / 3 / self.e[0], 1 / 3 / self.e[1]),\n            1 / 15", "            1 / 5 / numpy.prod(self.e, axis=0),\n            (1 / 3 / self.e[0], 1 / 3 / self.e[1]),\n            1 / 15")]),
    dict(name="c01-dropped-3na-thermal", props=["C01"], edits=[(NS, "                    + self.mode_gamma[1][0][nax,:,:,:]\n                )\n            ) * 3 * self.na", "                    + self.mode_gamma[1][0][nax,:,:,:]\n                )\n            ) * 3")]),
    dict(name="c01-gamma-mask-all-q", props=["C01"], edits=[(NS, "[0, slice(0, 3)]", "[slice(None), slice(0, 3)]")]),
    dict(name="c01-no-gamma-mask", props=["C01"], edits=[(NS, "    clear_gamma_point(_amount)\n", "")]),
    dict(name="c01-sign-of-vdgdv", props=["C01"], edits=[(NS, "                - self.mode_gamma[0] * self.freq_array\n                + self.mode_gamma[1][0] * self.freq_array", "                + self.mode_gamma[0] * self.freq_array\n                + self.mode_gamma[1][0] * self.freq_array")]),
    dict(name="c01-q1-for-q2", props=["C01"], edits=[(NS, "                - self.Q2 * \\\n                    self.mode_gamma[2][nax,:,:,:] \\\n                + self.Q1 * (\n                    + self.mode_gamma[2][nax,:,:,:]\n                    - self.mode_gamma[0][nax,:,:,:]\n                    + self.mode_gamma[1][0]", "                - self.Q1 * \\\n                    self.mode_gamma[2][nax,:,:,:] \\\n                + self.Q1 * (\n                    + self.mode_gamma[2][nax,:,:,:]\n                    - self.mode_gamma[0][nax,:,:,:]\n                    + self.mode_gamma[1][0]")]),
    dict(name="c01-offdiag-P-not-minus-static", props=["C01"], edits=[(NS, "            - self.calculator.static_p_array[nax, :]\n", "")]),
    dict(name="c01-weights-unweighted", props=["C01"], edits=[(NS, "        weights=q_weights,\n", "")]),
    dict(name="c01-T0-mask-wrong-axis", props=["C01"], edits=[(NS, "        ret[numpy.where(self.t_array == 0),:] = 0\n\n        return ret\n\n    @LazyProperty\n    def value_isothermal(self) -> numpy.ndarray:", "        ret[:, numpy.where(self.t_array[:ret.shape[1]] == 0)] = 0\n\n        return ret\n\n    @LazyProperty\n    def value_isothermal(self) -> numpy.ndarray:")]),
    dict(name="c01-hbar-vs-h", props=["C01"], edits=[(NS, "h_div_k =  units.Quantity(_h / _k", "h_div_k =  units.Quantity(_h / _k / 6.283185307179586")]),
    # ---- C02 -----------------------------------------------------------------------------
    dict(name="c02-second-strain-index", props=["C02"], edits=[(NS, "* self.average_over_modes(self.Q2 * self.mode_gamma[1][1])", "* self.average_over_modes(self.Q2 * self.mode_gamma[1][0])")]),
    dict(name="c02-missing-square", props=["C02"], edits=[(NS, "* (3 * k * self.na) ** 2", "* (3 * k * self.na)")]),
    dict(name="c02-gap-q1", props=["C02"], edits=[(NS, "self.average_over_modes(self.Q2 * self.mode_gamma[1][0]) \\", "self.average_over_modes(self.Q1 * self.mode_gamma[1][0]) \\")]),
    dict(name="c02-gap-T0-mask-dropped", props=["C02"], edits=[(NS, "        ret[numpy.where(self.t_array == 0), :] = 0\n        \n        return ret", "        return ret")]),
    dict(name="c02-shear-adiabatic-from-adiabatic", props=["C02", "C04"], edits=[(TK, "                task.modulus_results = self.modulus_isothermal_values.get_results_by_strain_keys(", "                task.modulus_results = (self.modulus_adiabatic_values if len(self.modulus_adiabatic_values) else self.modulus_isothermal_values).get_results_by_strain_keys(")]),
    dict(name="c02-shear-adiabatic-recomputed", props=["C02"], edits=[(SH, "    def value_adiabatic(self):\n        return self.value_isothermal", "    def value_adiabatic(self):\n        return self.value_isothermal * (1 + 1e-6)")]),
    # ---- C04 -----------------------------------------------------------------------------
    dict(name="c04-eq-ignores-strain", props=["C04"], edits=[(TK, "            if not numpy.allclose(self.params, other.params): return False\n", "")]),
    dict(name="c04-param-index-j-for-k", props=["C04"], edits=[(TK, "                strain[:, k-1] / numpy.sum(strain, axis=1)\n", "                strain[:, j-1] / numpy.sum(strain, axis=1)\n")]),
    dict(name="c04-edge-reversed", props=["C04"], edits=[(TK, "graph.add_edge(curr, dep)", "graph.add_edge(dep, curr)")]),
    dict(name="c04-rotated-deps-unrotated-strain", props=["C04"], edits=[(TK, "                task.modulus_results_rotated = self.modulus_isothermal_values.get_results_by_strain_keys(\n                    task.calculator.strain_rotated,", "                task.modulus_results_rotated = self.modulus_isothermal_values.get_results_by_strain_keys(\n                    task.calculator.strain,")]),
    dict(name="c04-loose-allclose", props=["C04"], edits=[(TK, "if not numpy.allclose(self.params, other.params): return False", "if not numpy.allclose(self.params, other.params, rtol=2e-2): return False")]),
    dict(name="c04-adiabatic-stored-as-isothermal", props=["C04", "C02"], edits=[(TK, "            self.modulus_adiabatic_values[task.task_params] = task.get_modulus_adiabatic()", "            self.modulus_adiabatic_values[task.task_params] = task.get_modulus_adiabatic()\n            if not task.key.is_shear: self.modulus_isothermal_values[task.task_params] = task.get_modulus_adiabatic()")]),
    # ---- C08 / C09 -------------------------------------------------------------------------
    dict(name="c08-trigonal-sign", props=["C08"], edits=[("cij/data/constraints/trigonal7", "c14 = -c24 = c56", "c14 = c24 = c56")]),
    dict(name="c08-hexagonal-factor", props=["C08"], edits=[("cij/data/constraints/hexagonal", "c66 = (c11 - c12) / 2", "c66 = (c11 - c12)")]),
    dict(name="c08-tetragonal7-missing-relation", props=["C08"], edits=[("cij/data/constraints/tetragonal7", "c16 = -c26\n", "")]),
    dict(name="c08-cubic-extra-relation", props=["C08"], edits=[("cij/data/constraints/cubic", "c12 = c13 = c23", "c12 = c13 = c23 = c44")]),
    dict(name="c08-parser-drops-chain-tail", props=["C08"], edits=[(FI, "for part in parts[1:]:", "for part in parts[1:2]:")]),
    dict(name="c08-monoclinic-wrong-axis", props=["C08"], edits=[("cij/data/constraints/monoclinic", "c14 = c16 = 0\nc24 = c26 = 0\nc34 = c36 = 0\nc45 = c56 = 0", "c15 = c16 = 0\nc25 = c26 = 0\nc35 = c36 = 0\nc45 = c46 = 0")]),
    dict(name="c09-rank-off-by-one", props=["C09"], edits=[(FI, "if rank < nsym and not ignore_rank:", "if rank < nsym - 1 and not ignore_rank:")]),
    dict(name="c09-flags-swapped", props=["C09"], edits=[(FI, "if rank < nsym and not ignore_rank:", "if rank < nsym and not ignore_residuals:")]),
    dict(name="c09-lower-dropped", props=["C09"], edits=[(FI, "        sym = sym.lower()   # Warning", "        sym = sym   # Warning")]),
    dict(name="c09-residual-tolerance-default", props=["C09"], edits=[(FI, "residual_atol: float = 0.1", "residual_atol: float = 1000.0")]),
    dict(name="c09-drop-tolerance-default", props=["C09"], edits=[(FI, "drop_atol: float = 1e-8", "drop_atol: float = 1.0")]),
    dict(name="c09-cwd-first-again", props=["C09"], edits=[(FI, "    if not constraints.is_file() and Path(system).is_file():", "    if Path(system).exists():")]),
    # ---- C16 ------------------------------------------------------------------------------
    dict(name="c16-default-wins-nested", props=["C16"], edits=[(CF, "        else:\n            output_dict[k] = input_dict[k]\n    return output_dict", "        else:\n            output_dict[k] = default_dict[k] if isinstance(default_dict[k], bool) else input_dict[k]\n    return output_dict")]),
    dict(name="c16-merge-mutates-default", props=["C16"], edits=[(CF, "    output_dict = {}\n", "    output_dict = default_dict\n")]),
    dict(name="c16-schema-system-enum-dropped", props=["C16"], edits=[("cij/data/schema/config.schema.json", '"enum": ["triclinic", "monoclinic", "hexagonal", "trigonal6", "trigonal7", "orthorhombic", "tetragonal6", "tetragonal7", "cubic"]', '"minLength": 1')]),
    dict(name="c16-schema-tmin-minimum", props=["C16"], edits=[("cij/data/schema/config.schema.json", '"minimum": 0,\n                    "title": "The minimum temperature', '"title": "The minimum temperature')]),
    dict(name="c16-json-not-validated", props=["C16"], edits=[(CF, "    if validate:\n", "    if validate and suffix != \".json\":\n")], why="only visible through invalid json files"),
    # ---- C20 ------------------------------------------------------------------------------
    dict(name="c20-sort-no-conj", props=["C20"], edits=[("cij/misc/evec_sort.py", "m = numpy.conj(numpy.array(base_evecs)) @ numpy.array(target_evecs).T", "m = numpy.array(base_evecs) @ numpy.array(target_evecs).T")]),
    dict(name="c20-sort-transposed-assignment", props=["C20"], edits=[("cij/misc/evec_sort.py", "sorted_arr[idx[0]] = target_arr[idx[1]]", "sorted_arr[idx[1]] = target_arr[idx[0]]")]),
    dict(name="c20-sort-real-part-only", props=["C20"], edits=[("cij/misc/evec_sort.py", "numpy.argmax(numpy.abs(m))", "numpy.argmax(numpy.real(m))")]),
    dict(name="c20-disp2eig-mass-not-sqrt", props=["C20"], edits=[("cij/misc/evec_disp2eig.py", "a *= numpy.sqrt(m[nax, :])", "a *= m[nax, :]")]),
    dict(name="c20-disp2eig-norm-no-conj", props=["C20"], edits=[("cij/misc/evec_disp2eig.py", "numpy.diag(numpy.conj(a) @ a.T)", "numpy.diag(a @ a.T)")]),
    dict(name="c20-load-imag-column-shift", props=["C20"], edits=[("cij/misc/evec_load.py", "float(line[26:36]) + float(line[37:47]) * 1j", "float(line[26:36]) + float(line[13:23]) * 1j")]),
    dict(name="c20-load-thz-for-cm1", props=["C20"], edits=[("cij/misc/evec_load.py", "zip((int, float, float), res.groups())", "zip((int, float, float), (res.group(1), res.group(2), res.group(2)))")]),
]

CA = "cij/core/calculator.py"
FM = "cij/core/full_modulus.py"
MG = "cij/core/mode_gamma.py"
QA = "cij/core/qha_adapter.py"
RW = "cij/io/output/results_writer.py"
ST = "cij/cli/static.py"
EX = "cij/cli/extract.py"
GE = "cij/cli/geotherm.py"
QI = "cij/io/traditional/qha_input.py"
ED = "cij/io/traditional/elast_dat.py"

MUTANTS += [
    # ---- C07 ------------------------------------------------------------------------------
    dict(name="c07-reuss-4-vs-3", props=["C07"], edits=[(CA, "            + 3 * (self.s44 + self.s55 + self.s66))", "            + 4 * (self.s44 + self.s55 + self.s66))")]),
    dict(name="c07-voigt-c13-c23-swap", props=["C07"], edits=[(CA, "                + 2 * (self.c12 + self.c23 + self.c13)) / 9", "                + 2 * (self.c12 + self.c23 + self.c23)) / 9")]),
    dict(name="c07-upper-triangle-only", props=["C07"], edits=[(CA, "            for i, j in set(itertools.permutations(key.voigt, 2)):", "            for i, j in [key.voigt]:")]),
    dict(name="c07-vp-without-4-3", props=["C07"], edits=[(CA, "(self.bulk_modulus_voigt_reuss_hill + 4 / 3 * self.shear_modulus_voigt_reuss_hill) * self.v_array", "(self.bulk_modulus_voigt_reuss_hill + self.shear_modulus_voigt_reuss_hill) * self.v_array")]),
    dict(name="c07-mass-amu-not-mol", props=["C07"], edits=[(CA, "        return m * 1e-3 / N", "        return m * 1.66053906660e-27 * (1 + 1e-4)")]),
    dict(name="c07-s-lookup-returns-c", props=["C07"], edits=[(CA, "                return self.calculator._compliances[key]", "                return self.calculator.modulus_adiabatic.get(key, self.calculator._compliances[key])")]),
    dict(name="c07-vrh-uses-isothermal", props=["C07"], edits=[(CA, "                if res.group(3) == 't':\n                    return self.calculator.modulus_isothermal[key]\n                else:\n                    return self.calculator.modulus_adiabatic[key]", "                if res.group(3) == 's':\n                    return self.calculator.modulus_adiabatic[key]\n                else:\n                    return self.calculator.modulus_isothermal[key]")]),
    # ---- C11 ------------------------------------------------------------------------------
    dict(name="c11-gamma-sign", props=["C11"], edits=[(MG, "    r_array = - numpy.polyval(numpy.polyder(p, 1), ln_v_array)", "    r_array = numpy.polyval(numpy.polyder(p, 1), ln_v_array)")]),
    dict(name="c11-first-derivative-twice", props=["C11"], edits=[(MG, "        - krogh.derivative(ln_v_array, der=2),", "        - krogh.derivative(ln_v_array, der=1),")]),
    dict(name="c11-spline-not-flipped", props=["C11"], edits=[(MG, "        numpy.flip(numpy.log(mode_freqs), axis=0),\n        k=order,", "        numpy.log(mode_freqs),\n        k=order,")]),
    dict(name="c11-qm-index-mix", props=["C11"], edits=[(MG, "                volume.q_points[j].modes[k]\n                for volume in qha_input.volumes\n            ])\n\n            if method == \"lagrange\"", "                volume.q_points[j].modes[np - 1 - k if j else k]\n                for volume in qha_input.volumes\n            ])\n\n            if method == \"lagrange\"")]),
    dict(name="c11-plot-swap-again", props=["C11"], edits=[("cij/plot/modes.py", "            w_arrays = self.calculator.mode_gamma[1][:, iq, :]", "            w_arrays = self.calculator.mode_gamma[2][:, iq, :]")]),
    dict(name="c11-pchip-no-second-derivative", props=["C11"], edits=[(MG, "        - interp(ln_v_array, nu=2, extrapolate=True),", "        - interp(ln_v_array, nu=2, extrapolate=True) * 0,")]),
    # ---- C05 ------------------------------------------------------------------------------
    dict(name="c05-fit-c-not-Vc", props=["C05"], edits=[(FM, "        p = numpy.polyfit(strains, self.volumes * moduli, deg = order + 1)\n        modulus_array = numpy.polyval(p, strain_array) / self.v_array", "        p = numpy.polyfit(strains, moduli, deg = order + 1)\n        modulus_array = numpy.polyval(p, strain_array)")]),
    dict(name="c05-gamma-order-swapped", props=["C05"], edits=[(CA, "        self.mode_gamma = [vdr_dv, gamma_i, gamma_i**2]", "        self.mode_gamma = [gamma_i, vdr_dv, gamma_i**2]")]),
    dict(name="c05-strain-axis-pairing", props=["C05"], edits=[(FM, "            strains[:,i] = (tmp[2:] - tmp[:-2]) / (tmp[2:] + tmp[:-2])", "            strains[:,(i + 1) % 3] = (tmp[2:] - tmp[:-2]) / (tmp[2:] + tmp[:-2])")]),
    dict(name="c05-isothermal-adiabatic-swapped", props=["C05"], edits=[(CA, "        self.modulus_adiabatic = self._full_modulus.modulus_adiabatic\n        self.modulus_isothermal = self._full_modulus.modulus_isothermal", "        self.modulus_adiabatic = self._full_modulus.modulus_isothermal\n        self.modulus_isothermal = self._full_modulus.modulus_adiabatic")]),
    dict(name="c05-nm-for-na", props=["C05"], edits=[(CA, "        self.na = self.qha_input.na", "        self.na = self.qha_input.nm")]),
    dict(name="c05-gpa-conversion-dropped", props=["C05"], edits=[(FM, "        static_moduli = _from_gpa(static_moduli)\n", "        static_moduli = static_moduli / 14710.5\n")], why="old constant: 5e-8 relative, below tolerance; expected MISSED is acceptable"),
    dict(name="c05-static-pressure-order-2", props=["C05"], edits=[(CA, "    def _calculate_pressure_static(self, order: int = 3):", "    def _calculate_pressure_static(self, order: int = 2):")]),
    dict(name="c05-reference-volume-mismatch", props=["C05"], edits=[(FM, "        strain_array = calculate_eulerian_strain(self.volumes[0], self.v_array)", "        strain_array = calculate_eulerian_strain(self.volumes[-1], self.v_array)")]),
    dict(name="c05-symmetry-not-applied", props=["C05"], edits=[(CA, "            apply_symetry_on_elast_data(self.elast_data, symmetry)", "            pass")]),
    # ---- C06 ------------------------------------------------------------------------------
    dict(name="c06-wrong-pressure-grid", props=["C06"], edits=[(CA, "        return v2p(func_of_t_v, self.calculator.qha_calculator.volume_base.pressures, self.p_array)", "        return v2p(func_of_t_v, self.calculator.qha_calculator.volume_base.pressures, self.p_array * 1.001)")]),
    dict(name="c06-static-pressure-field", props=["C06"], edits=[(CA, "        return v2p(func_of_t_v, self.calculator.qha_calculator.volume_base.pressures, self.p_array)", "        return v2p(func_of_t_v, numpy.tile(self.calculator.static_p_array, (func_of_t_v.shape[0], 1)), self.p_array)")]),
    dict(name="c06-range-check-inverted", props=["C06"], edits=[(QA, "        if self.p_tv_gpa[:, -1].min() < self.desired_pressures_gpa.max():", "        if self.p_tv_gpa[:, -1].max() < self.desired_pressures_gpa.max():")]),
    dict(name="c06-range-check-removed", props=["C06"], edits=[(QA, "        calculator.desired_pressure_status()\n", "")]),
    dict(name="c06-pressure-base-adiabatic-is-isothermal", props=["C06"], edits=[(CA, "        return CijPressureBaseModulusInterface(\n            self.calculator.modulus_adiabatic,", "        return CijPressureBaseModulusInterface(\n            self.calculator.modulus_isothermal,")]),
    # ---- C12 ------------------------------------------------------------------------------
    dict(name="c12-q2-overflow-again", props=["C12", "C01"], edits=[(NS, "        return self.Q ** 2 * numpy.exp(-self.Q) / numpy.expm1(-self.Q) ** 2", "        return self.Q ** 2 * numpy.exp(self.Q) / (numpy.exp(self.Q) - 1) ** 2")]),
    dict(name="c12-eig-again", props=["C12"], edits=[(SH, "        return numpy.linalg.eigh(self.fictitious_strain)[1]", "        return numpy.linalg.eig(self.fictitious_strain)[1]")]),
    dict(name="c12-akima-no-extrapolation", props=["C12", "C11"], edits=[(MG, "        numpy.exp(interp(ln_v_array, extrapolate=True)),", "        numpy.exp(interp(ln_v_array)),")]),
    dict(name="c12-gap-T0-unmasked", props=["C12"], edits=[(NS, "        ret[numpy.where(self.t_array == 0), :] = 0\n        \n        return ret", "        return ret")]),
    # ---- C13 ------------------------------------------------------------------------------
    dict(name="c13-weights-unnormalised-sum", props=["C13"], edits=[(NS, "    return numpy.average(\n        numpy.average(_amount, axis=dims - 1),\n        weights=q_weights,\n        axis=dims - 2\n    )", "    return numpy.sum(\n        numpy.average(_amount, axis=dims - 1) * q_weights,\n        axis=dims - 2\n    ) / 12.0")]),
    dict(name="c13-volume-order-check-dropped", props=["C13"], edits=[(QA, "        if not numpy.all(numpy.diff(self._volumes) <= 0):", "        if False:")]),
    dict(name="c13-static-key-uppercase-miskeyed", props=["C13"], edits=[(ED, "        return c_(res.group(1))", "        return c_(res.group(1)) if key[0] != 'C' else c_(res.group(1).replace('4', 'x').replace('5', '4').replace('x', '5'))")]),
    dict(name="c01-gamma-mask-by-weight", props=["C01"], edits=[(NS, "    clear_gamma_point(_amount)\n", "    _amount[..., 0, :3] = 0 if q_weights[0] == q_weights.min() else _amount[..., 0, :3]\n")]),
    # ---- C14 ------------------------------------------------------------------------------
    dict(name="c14-class-level-cache", props=["C14"], edits=[(FM, "    def get_static_modulus(self, key: C_):", "    _cache = {}\n    def get_static_modulus(self, key: C_):\n        if key in FullThermalElasticModulus._cache: return FullThermalElasticModulus._cache[key]\n        FullThermalElasticModulus._cache[key] = self._get_static_modulus(key)\n        return FullThermalElasticModulus._cache[key]\n    def _get_static_modulus(self, key: C_):")]),
    dict(name="c14-writer-rules-mutated", props=["C14"], edits=[(RW, "        _config = self._asdict()\n        if config is not None:\n            _config.update(config)\n\n        convert = convert_unit(_config[\"unit_internal\"], _config[\"unit\"])\n\n        variable = getattr(base, self.prop)\n\n        if \"fname\" in _config:", "        _config = self._asdict()\n        if config is not None:\n            _config.update(config)\n        self.keywords.append(\"seen\")\n\n        convert = convert_unit(_config[\"unit_internal\"], _config[\"unit\"])\n\n        variable = getattr(base, self.prop)\n\n        if \"fname\" in _config:")]),
    dict(name="c14-set-order-into-output", props=["C14"], edits=[(CA, "        for c in variables:\n            writer.write(c)\n\nclass CijPressureBaseModulusInterface:", "        for c in set(map(str, variables)):\n            writer.write(c)\n            open('order.log', 'a').write(c + '\\n')\n\nclass CijPressureBaseModulusInterface:")]),
    dict(name="c14-cwd-constraints-first", props=["C14", "C09"], edits=[(FI, "    if not constraints.is_file() and Path(system).is_file():", "    if Path(system).is_file():")]),
    dict(name="c14-lazy-cache-on-class", props=["C14"], edits=[(CA, "    def _process_cij(self):\n        self._full_modulus = FullThermalElasticModulus(self)", "    _shared = {}\n    def _process_cij(self):\n        self._full_modulus = Calculator._shared.setdefault(self.na, FullThermalElasticModulus(self))")]),
    # ---- C15 ------------------------------------------------------------------------------
    dict(name="c15-isothermal-under-adiabatic-name", props=["C15"], edits=[("cij/data/output/writer_rules.yml", "  prop: modulus_adiabatic", "  prop: modulus_isothermal")]),
    dict(name="c15-wrong-unit-conversion", props=["C15"], edits=[(RW, "        for k, v in variable.items():", "        convert = convert_unit(_config[\"unit_internal\"], \"kbar\") if _config[\"unit\"] == \"GPa\" else convert\n        for k, v in variable.items():")]),
    dict(name="c15-columns-in-au", props=["C15"], edits=[(CA, "        p_array = _to_gpa(self.p_array)\n", "        p_array = self.p_array\n")]),
    dict(name="c15-alias-different-pattern", props=["C15"], edits=[("cij/data/output/writer_rules.yml", "  - vs\n  - secondary_velocities\n  fname_pattern: v_s_{base}_km_s.txt", "  - vs\n  - secondary_velocities\n  fname_pattern: v_p_{base}_km_s.txt")]),
    dict(name="c15-fname-override-ignored", props=["C15"], edits=[(RW, "        if \"fname\" in _config:\n            fname = config[\"fname\"]\n        else:\n            fname = self.fname_pattern.format(base=base._base_name)", "        fname = self.fname_pattern.format(base=base._base_name)")]),
    dict(name="c15-volume-labels-bohr", props=["C15"], edits=[(CA, "        v_array = _to_ang3(self.v_array)\n", "        v_array = self.v_array\n")]),
    # ---- C17 ------------------------------------------------------------------------------
    dict(name="c17-writer-loses-digits", props=["C17"], edits=[(QI, "                lines.append(f\"{cm_1:12.6f}\")", "                lines.append(f\"{cm_1:12.4f}\")")]),
    dict(name="c17-reader-drops-last-q", props=["C17"], edits=[(QI, "        for weight in _read_weights(fp, qha_input_data.nq):\n            qha_input_data.weights.append(weight)", "        for weight in _read_weights(fp, qha_input_data.nq):\n            qha_input_data.weights.append(weight)\n        if qha_input_data.nq > 6: qha_input_data.weights[-1] = qha_input_data.weights[-2]")]),
    dict(name="c17-elast-key-miskeyed", props=["C17"], edits=[(ED, 'REGEX_MODULUS = r"^\\D*(\\d+)$"', 'REGEX_MODULUS = r"^\\D*(\\d\\d)\\d*$"')]),
    dict(name="c17-fill-cli-drops-remainder", props=["C17"], edits=[("cij/cli/fill.py", "        sys.stdout.write(fp.read())", "        sys.stdout.write(fp.read().rstrip() + \"\\n\" if False else fp.readline())")]),
    dict(name="c17-lattice-header-consumed", props=["C17"], edits=[(ED, "            if line.strip() != \"\":\n                for _ in range(nv):\n                    line = fp.readline()", "            if line.strip() != \"\":\n                for _ in range(nv - 1):\n                    line = fp.readline()")]),
    # ---- C18 ------------------------------------------------------------------------------
    dict(name="c18-F-is-V-again", props=["C18"], edits=[(ST, "        _f_array = v2p1d(f_array, p_array, _p_array)", "        _f_array = v2p1d(v_array, p_array, _p_array)")]),
    dict(name="c18-P-sign", props=["C18"], edits=[(ST, "    p_array = - numpy.gradient(f_array) / numpy.gradient(v_array)", "    p_array = numpy.gradient(f_array) / numpy.gradient(v_array)")]),
    dict(name="c18-ev-conversion-twice", props=["C18"], edits=[(ST, "    df[\"F\"] = _to_ev(df[\"F\"].to_numpy())", "    df[\"F\"] = _to_ev(_to_ev(df[\"F\"].to_numpy()))")]),
    dict(name="c18-vphi-uses-G", props=["C18"], edits=[(ST, "        df.loc[:, \"v_phi\"] = numpy.sqrt(df.loc[:, \"bm_VRH\"] / df.loc[:, \"density\"])", "        df.loc[:, \"v_phi\"] = numpy.sqrt(df.loc[:, \"G_VRH\"] / df.loc[:, \"density\"])")]),
    dict(name="c18-cellmass-ignored", props=["C18"], edits=[(ST, "    if cellmass:\n        df.loc[:, \"density\"] = cellmass / df.loc[:, \"V\"]", "    if cellmass and False:\n        df.loc[:, \"density\"] = cellmass / df.loc[:, \"V\"]")]),
    dict(name="c18-GR-coefficient", props=["C18"], edits=[(ST, "                + 3 * (s[:,4,4] + s[:,5,5] + s[:,6,6]))", "                + 4 * (s[:,4,4] + s[:,5,5] + s[:,6,6]))")]),
    dict(name="c18-energy-fit-order-1", props=["C18"], edits=[(ST, "    f_array = fit_modulus(volumes, v_array, energies)", "    f_array = fit_modulus(volumes, v_array, energies, order=3)")]),
    # ---- C19 ------------------------------------------------------------------------------
    dict(name="c19-nearest-wrong-axis", props=["C19"], edits=[(EX, "        y_index = numpy.argmin(numpy.abs(df.index.to_numpy() - y))", "        y_index = min(numpy.argmin(numpy.abs(df.columns.to_numpy() - y)), len(df.index) - 1)")]),
    dict(name="c19-nearest-floor", props=["C19"], edits=[(EX, "        y_index = numpy.argmin(numpy.abs(df.index.to_numpy() - y))", "        y_index = max(int(numpy.searchsorted(df.index.to_numpy(), y, side='right')) - 1, 0)")]),
    dict(name="c19-geotherm-TP-transposed", props=["C19"], edits=[(GE, "        table[var] = fit_data(df)(table[p_col], table[t_col], grid=False)", "        table[var] = fit_data(df.T)(table[t_col], table[p_col], grid=False) if False else fit_data(df)(table[p_col] * 1.0, table[t_col] * 1.02, grid=False)")]),
    dict(name="c19-geotherm-smoothing", props=["C19"], edits=[(GE, "    return RectBivariateSpline(x, y, z)", "    return RectBivariateSpline(x, y, z, s=len(x) * 1.0)")]),
    dict(name="c19-wrong-file-glob", props=["C19"], edits=[(EX, "    df = pandas.read_table(glob(f\"{var}_tp_*\")[0]", "    df = pandas.read_table(sorted(glob(f\"{var[:2]}*_tp_*\"))[0]")]),
]
