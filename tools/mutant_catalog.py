"""Hand-written realistic breaks ("catches" lists of DESIGN.md section 5).  Each must make the
named check's quick tier exit 1.  edits = [(file, old, new)], first occurrence replaced."""

NS = "cij/core/phonon_contribution/nonshear.py"
SH = "cij/core/phonon_contribution/shear.py"
TK = "cij/core/tasks.py"
VO = "cij/util/voigt.py"
FI = "cij/util/fill.py"
CF = "cij/io/config/config.py"

MUTANTS = [
    # ---- C10 -----------------------------------------------------------------------------
    dict(name="c10-voigt-4-6-swapped-in-table", props=["C10"], edits=[(VO, "4: (2, 3),", "4: (1, 2),"), (VO, "6: (1, 2)", "6: (2, 3)")]),
    dict(name="c10-sort-by-tuple-not-voigt", props=["C10"], edits=[(VO, "StrainRepresentation.from_standard(k, l),\n            ), key=lambda e: e.voigt)", "StrainRepresentation.from_standard(k, l),\n            ))")]),
    dict(name="c10-multiplicity-shift", props=["C10", "C03"], edits=[(VO, "<< (self.j.i != self.j.j)", "<< (self.j.i != self.j.i)")]),
    dict(name="c10-shear-set-45", props=["C10"], edits=[(VO, "return self.i.voigt in {4, 5, 6} or self.j.voigt in {4, 5, 6}", "return self.i.voigt in {4, 5, 6} or self.j.voigt in {4, 5}")]),
    dict(name="c10-accepts-voigt-0", props=["C10"], edits=[(VO, "        if i not in VOIGT_TO_STANDARD.keys():\n            raise RuntimeError(f\"Invalid voigt index {i}\")\n", "        i = i or 1\n")]),
    # ---- C03 -----------------------------------------------------------------------------
    dict(name="c03-T-vs-Ttranspose", props=["C03"], edits=[(SH, "self.transformation_matrix.T @ strain @ self.transformation_matrix", "self.transformation_matrix @ strain @ self.transformation_matrix.T")]),
    dict(name="c03-missing-factor-2", props=["C03"], edits=[(SH, "return 2 * strain_energy_difference", "return strain_energy_difference")]),
    dict(name="c03-target-skip-dropped", props=["C03"], edits=[(SH, "        if target and key == target: continue\n\n        _moduli", "        _moduli")]),
    dict(name="c03-energy-half-dropped", props=["C03"], edits=[(SH, "fictitious_strain[k,l] / 2", "fictitious_strain[k,l]")]),
    # ---- C01 -----------------------------------------------------------------------------
    dict(name="c01-offdiag-prefactor-1-5", props=["C01"], edits=[(NS, "            1 / 15 / numpy.prod(self.e, axis=0),\n            (1 / 3 / self.e[0], 1 / 3 / self.e[1]),\n            1 / 15", "            1 / 5 / numpy.prod(self.e, axis=0),\n            (1 / 3 / self.e[0], 1 / 3 / self.e[1]),\n            1 / 15")]),
    dict(name="c01-dropped-3na-thermal", props=["C01"], edits=[(NS, "                    + self.mode_gamma[1][0][nax,:,:,:]\n                )\n            ) * 3 * self.na", "                    + self.mode_gamma[1][0][nax,:,:,:]\n                )\n            ) * 3")]),
    dict(name="c01-gamma-mask-all-q", props=["C01"], edits=[(NS, "[0, slice(0, 3)]", "[slice(None), slice(0, 3)]")]),
    dict(name="c01-no-gamma-mask", props=["C01"], edits=[(NS, "    clear_gamma_point(_amount)\n", "")]),
    dict(name="c01-sign-of-vdgdv", props=["C01"], edits=[(NS, "                - self.mode_gamma[0] * self.freq_array\n                + self.mode_gamma[1][0] * self.freq_array", "                + self.mode_gamma[0] * self.freq_array\n                + self.mode_gamma[1][0] * self.freq_array")]),
    dict(name="c01-q1-for-q2", props=["C01"], edits=[(NS, "                - self.Q2 * \\\n                    self.mode_gamma[2][nax,:,:,:] \\\n                + self.Q1 * (\n                    + self.mode_gamma[2][nax,:,:,:]\n                    - self.mode_gamma[0][nax,:,:,:]\n                    + self.mode_gamma[1][0]", "                - self.Q1 * \\\n                    self.mode_gamma[2][nax,:,:,:] \\\n                + self.Q1 * (\n                    + self.mode_gamma[2][nax,:,:,:]\n                    - self.mode_gamma[0][nax,:,:,:]\n                    + self.mode_gamma[1][0]")]),
    dict(name="c01-offdiag-P-not-minus-static", props=["C01"], edits=[(NS, "            - self.calculator.static_p_array[nax, :]\n", "")]),
    dict(name="c01-weights-unweighted", props=["C01"], edits=[(NS, "        weights=q_weights,\n", "")]),
    dict(name="c01-T0-mask-wrong-axis", props=["C01"], edits=[(NS, "        ret[numpy.where(self.t_array == 0),:] = 0\n\n        return ret\n\n    @LazyProperty\n    def value_isothermal(self) -> numpy.ndarray:", "        ret[:, numpy.where(self.t_array[:ret.shape[1]] == 0)] = 0\n\n        return ret\n\n    @LazyProperty\n    def value_isothermal(self) -> numpy.ndarray:")]),
    dict(name="c01-hbar-vs-h", props=["C01"], edits=[(NS, "h_div_k =  units.Quantity(_h / _k", "h_div_k =  units.Quantity(_h / _k / 6.283185307179586")]),
    # ---- C02 -----------------------------------------------------------------------------
    dict(name="c02-second-strain-index", props=["C02"], edits=[(NS, "* self.average_over_modes(self.Q2 * self.mode_gamma[1][1])", "* self.average_over_modes(self.Q2 * self.mode_gamma[1][0])")]),
    dict(name="c02-missing-square", props=["C02"], edits=[(NS, "* (3 * k * self.na) ** 2", "* (3 * k * self.na)")]),
    dict(name="c02-gap-q1", props=["C02"], edits=[(NS, "self.average_over_modes(self.Q2 * self.mode_gamma[1][0]) \\", "self.average_over_modes(self.Q1 * self.mode_gamma[1][0]) \\")]),
    dict(name="c02-gap-T0-mask-dropped", props=["C02"], edits=[(NS, "        ret[numpy.where(self.t_array == 0), :] = 0\n        \n        return ret", "        return ret")]),
    dict(name="c02-shear-adiabatic-from-adiabatic", props=["C02", "C04"], edits=[(TK, "                task.modulus_results = self.modulus_isothermal_values.get_results_by_strain_keys(", "                task.modulus_results = (self.modulus_adiabatic_values if len(self.modulus_adiabatic_values) else self.modulus_isothermal_values).get_results_by_strain_keys(")]),
    dict(name="c02-shear-adiabatic-recomputed", props=["C02"], edits=[(SH, "    def value_adiabatic(self):\n        return self.value_isothermal", "    def value_adiabatic(self):\n        return self.value_isothermal * (1 + 1e-6)")]),
    # ---- C04 -----------------------------------------------------------------------------
    dict(name="c04-eq-ignores-strain", props=["C04"], edits=[(TK, "            if not numpy.allclose(self.params, other.params): return False\n", "")]),
    dict(name="c04-param-index-j-for-k", props=["C04"], edits=[(TK, "                strain[:, k-1] / numpy.sum(strain, axis=1)\n", "                strain[:, j-1] / numpy.sum(strain, axis=1)\n")]),
    dict(name="c04-edge-reversed", props=["C04"], edits=[(TK, "graph.add_edge(curr, dep)", "graph.add_edge(dep, curr)")]),
    dict(name="c04-rotated-deps-unrotated-strain", props=["C04"], edits=[(TK, "                task.modulus_results_rotated = self.modulus_isothermal_values.get_results_by_strain_keys(\n                    task.calculator.strain_rotated,", "                task.modulus_results_rotated = self.modulus_isothermal_values.get_results_by_strain_keys(\n                    task.calculator.strain,")]),
    dict(name="c04-loose-allclose", props=["C04"], edits=[(TK, "if not numpy.allclose(self.params, other.params): return False", "if not numpy.allclose(self.params, other.params, rtol=2e-2): return False")]),
    dict(name="c04-adiabatic-stored-as-isothermal", props=["C04", "C02"], edits=[(TK, "            self.modulus_adiabatic_values[task.task_params] = task.get_modulus_adiabatic()", "            self.modulus_adiabatic_values[task.task_params] = task.get_modulus_adiabatic()\n            if not task.key.is_shear: self.modulus_isothermal_values[task.task_params] = task.get_modulus_adiabatic()")]),
    # ---- C08 / C09 -------------------------------------------------------------------------
    dict(name="c08-trigonal-sign", props=["C08"], edits=[("cij/data/constraints/trigonal7", "c14 = -c24 = c56", "c14 = c24 = c56")]),
    dict(name="c08-hexagonal-factor", props=["C08"], edits=[("cij/data/constraints/hexagonal", "c66 = (c11 - c12) / 2", "c66 = (c11 - c12)")]),
    dict(name="c08-tetragonal7-missing-relation", props=["C08"], edits=[("cij/data/constraints/tetragonal7", "c16 = -c26\n", "")]),
    dict(name="c08-cubic-extra-relation", props=["C08"], edits=[("cij/data/constraints/cubic", "c12 = c13 = c23", "c12 = c13 = c23 = c44")]),
    dict(name="c08-parser-drops-chain-tail", props=["C08"], edits=[(FI, "for part in parts[1:]:", "for part in parts[1:2]:")]),
    dict(name="c08-monoclinic-wrong-axis", props=["C08"], edits=[("cij/data/constraints/monoclinic", "c14 = c16 = 0\nc24 = c26 = 0\nc34 = c36 = 0\nc45 = c56 = 0", "c15 = c16 = 0\nc25 = c26 = 0\nc35 = c36 = 0\nc45 = c46 = 0")]),
    dict(name="c09-rank-off-by-one", props=["C09"], edits=[(FI, "if rank < nsym and not ignore_rank:", "if rank < nsym - 1 and not ignore_rank:")]),
    dict(name="c09-flags-swapped", props=["C09"], edits=[(FI, "if rank < nsym and not ignore_rank:", "if rank < nsym and not ignore_residuals:")]),
    dict(name="c09-lower-dropped", props=["C09"], edits=[(FI, "        sym = sym.lower()   # Warning", "        sym = sym   # Warning")]),
    dict(name="c09-residual-tolerance-default", props=["C09"], edits=[(FI, "residual_atol: float = 0.1", "residual_atol: float = 1000.0")]),
    dict(name="c09-drop-tolerance-default", props=["C09"], edits=[(FI, "drop_atol: float = 1e-8", "drop_atol: float = 1.0")]),
    dict(name="c09-cwd-first-again", props=["C09"], edits=[(FI, "    if not constraints.is_file() and Path(system).is_file():", "    if Path(system).exists():")]),
    # ---- C16 ------------------------------------------------------------------------------
    dict(name="c16-default-wins-nested", props=["C16"], edits=[(CF, "        else:\n            output_dict[k] = input_dict[k]\n    return output_dict", "        else:\n            output_dict[k] = default_dict[k] if isinstance(default_dict[k], bool) else input_dict[k]\n    return output_dict")]),
    dict(name="c16-merge-mutates-default", props=["C16"], edits=[(CF, "    output_dict = {}\n", "    output_dict = default_dict\n")]),
    dict(name="c16-schema-system-enum-dropped", props=["C16"], edits=[("cij/data/schema/config.schema.json", '"enum": ["triclinic", "monoclinic", "hexagonal", "trigonal6", "trigonal7", "orthorhombic", "tetragonal6", "tetragonal7", "cubic"]', '"minLength": 1')]),
    dict(name="c16-schema-tmin-minimum", props=["C16"], edits=[("cij/data/schema/config.schema.json", '"minimum": 0,\n                    "title": "The minimum temperature', '"title": "The minimum temperature')]),
    dict(name="c16-json-not-validated", props=["C16"], edits=[(CF, "    if validate:\n", "    if validate and suffix != \".json\":\n")], why="only visible through invalid json files"),
    # ---- C20 ------------------------------------------------------------------------------
    dict(name="c20-sort-no-conj", props=["C20"], edits=[("cij/misc/evec_sort.py", "m = numpy.conj(numpy.array(base_evecs)) @ numpy.array(target_evecs).T", "m = numpy.array(base_evecs) @ numpy.array(target_evecs).T")]),
    dict(name="c20-sort-transposed-assignment", props=["C20"], edits=[("cij/misc/evec_sort.py", "sorted_arr[idx[0]] = target_arr[idx[1]]", "sorted_arr[idx[1]] = target_arr[idx[0]]")]),
    dict(name="c20-sort-real-part-only", props=["C20"], edits=[("cij/misc/evec_sort.py", "numpy.argmax(numpy.abs(m))", "numpy.argmax(numpy.real(m))")]),
    dict(name="c20-disp2eig-mass-not-sqrt", props=["C20"], edits=[("cij/misc/evec_disp2eig.py", "a *= numpy.sqrt(m[nax, :])", "a *= m[nax, :]")]),
    dict(name="c20-disp2eig-norm-no-conj", props=["C20"], edits=[("cij/misc/evec_disp2eig.py", "numpy.diag(numpy.conj(a) @ a.T)", "numpy.diag(a @ a.T)")]),
    dict(name="c20-load-imag-column-shift", props=["C20"], edits=[("cij/misc/evec_load.py", "float(line[26:36]) + float(line[37:47]) * 1j", "float(line[26:36]) + float(line[13:23]) * 1j")]),
    dict(name="c20-load-thz-for-cm1", props=["C20"], edits=[("cij/misc/evec_load.py", "zip((int, float, float), res.groups())", "zip((int, float, float), (res.group(1), res.group(2), res.group(2)))")]),
]
