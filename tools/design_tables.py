#!/venv/bin/python
"""Regenerate seeded/SUMMARY.md and the table between the markers in DESIGN.md from seeded/*/meta.json."""
import glob
import json
import re
from pathlib import Path

VERIF = Path(__file__).resolve().parent.parent
BEGIN, END = "<!-- seeded-table:begin -->", "<!-- seeded-table:end -->"


def rows():
    out = []
    for d in sorted(glob.glob(str(VERIF / "seeded" / "C*"))):
        m = json.load(open(d + "/meta.json"))
        prop = m["property"]
        r = (m.get("checks", {}).get("scratch") or {}).get(prop, {})
        r2 = (m.get("checks", {}).get("in_repo") or {}).get(prop)
        mech = ", ".join(x.split("  (")[0] for x in r.get("mechanisms", [])[:2])
        out.append({"name": m["name"], "summary": (m.get("summary") or "").replace("\n", " ").replace("|", "/"),
                    "needs": (m.get("needs_to_manifest") or "").replace("\n", " ").replace("|", "/"),
                    "verdict": (r.get("verdict") or "") + (" (" + r["tier"] + ")" if r.get("tier") else ""), "mech": mech, "in_repo": (r2 or {}).get("verdict")})
    return out


def main():
    rs = rows()
    full = ["# Seeded changes (written by independent sub-agents) and the verdict of the quick check of their property", "",
            "| change | what it does | needs, in order to manifest | verdict (scratch worktree) | verdict (applied to /repo, then undone) | reported mechanism(s) |",
            "|---|---|---|---|---|---|"]
    for r in rs:
        full.append(f"| seeded/{r['name']} | {r['summary']} | {r['needs']} | {r['verdict']} | {r['in_repo'] or '-'} | `{r['mech']}` |")
    (VERIF / "seeded" / "SUMMARY.md").write_text("\n".join(full) + "\n")
    compact = ["| change | what it does (abridged; full text in seeded/SUMMARY.md and seeded/<name>/meta.json) | verdict | reported mechanism(s) |", "|---|---|---|---|"]
    for r in rs:
        compact.append(f"| {r['name']} | {r['summary'][:150]}{'…' if len(r['summary']) > 150 else ''} | {r['verdict']} | `{r['mech'][:90]}` |")
    p = VERIF / "DESIGN.md"
    s = p.read_text()
    block = BEGIN + "\n" + "\n".join(compact) + "\n" + END
    if BEGIN in s:
        s = re.sub(re.escape(BEGIN) + r".*?" + re.escape(END), lambda m_: block, s, flags=re.S)
    else:
        s = s.rstrip("\n") + "\n\n" + block + "\n"
    p.write_text(s)
    caught = sum(1 for r in rs if str(r["verdict"]).startswith("CAUGHT"))
    print(f"{caught} of {len(rs)} caught")


if __name__ == "__main__":
    main()
