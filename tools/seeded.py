#!/venv/bin/python
"""Seeded changes written independently by sub-agents: verify, store, and run the checks against them.

  tools/seeded.py verify C07 a      confirm /tmp/seeded-out/C07/{patch_a.diff,demo_a.py}: applies to a clean scratch worktree,
                                    demo passes clean / fails patched, existing tests pass patched; then store under seeded/C07-a/
  tools/seeded.py run [NAME ...]    run the property's quick check (and any listed in meta 'also') against each stored change,
                                    in a scratch worktree via VERIF_REPO; prints CAUGHT / MISSED
  tools/seeded.py run-in-repo NAME  the same, applying the patch to /repo itself and undoing it straight afterwards
"""
import json
import os
import shutil
import subprocess
import sys
from pathlib import Path

VERIF = Path(__file__).resolve().parent.parent
PY = "/venv/bin/python"
TESTS = [PY, "-m", "pytest", "-q", "-p", "no:cacheprovider", "--timeout=900", "tests",
         "--deselect", "tests/test_cij_cli_run.py::test_cij_run_with_example[examples/bridgmanite/settings.yaml]",
         "--deselect", "tests/test_cij_cli_static.py::test_cij_static_with_example[examples/bridgmanite/input01-examples/bridgmanite/elast.dat-orthorhombic]",
         "--deselect", "tests/test_cij_io_traditional.py::test_validate_input01[examples/bridgmanite/input01]"]


def sh(cmd, **kw):
    return subprocess.run(cmd, capture_output=True, text=True, **kw)


def scratch(name):
    wd = f"/tmp/sv/{name}"
    sh(["git", "-C", "/repo", "worktree", "remove", "--force", wd])
    shutil.rmtree(wd, ignore_errors=True)
    os.makedirs("/tmp/sv", exist_ok=True)
    r = sh(["git", "-C", "/repo", "worktree", "add", "--detach", wd, "HEAD"])
    assert r.returncode == 0, r.stderr
    return wd


def drop(wd):
    sh(["git", "-C", "/repo", "worktree", "remove", "--force", wd])
    shutil.rmtree(wd, ignore_errors=True)


def verify(pid, letter, tests=True, srcdir="/tmp/seeded-out", store_as=None):
    src = Path(srcdir) / pid
    patch, demo = src / f"patch_{letter}.diff", src / f"demo_{letter}.py"
    try:
        meta = json.load(open(src / "meta.json")) if (src / "meta.json").exists() else {}
    except Exception:
        meta = {}
    name = f"{pid}-{store_as or letter}"
    wd = scratch(name)
    report = {"name": name, "property": pid}
    try:
        env = dict(os.environ, PYTHONDONTWRITEBYTECODE="1")
        r0 = sh([PY, str(demo)], cwd=wd, env=env, timeout=1800)
        report["demo_clean_exit"] = r0.returncode
        ra = sh(["git", "apply", str(patch)], cwd=wd)
        report["patch_applies"] = ra.returncode == 0
        if ra.returncode != 0:
            report["error"] = ra.stderr[-500:]
            return report
        files = sh(["git", "diff", "--name-only"], cwd=wd).stdout.split()
        report["files_changed"] = files
        report["touches_only_package"] = all(f.startswith("cij/") for f in files)
        r1 = sh([PY, str(demo)], cwd=wd, env=env, timeout=1800)
        report["demo_patched_exit"] = r1.returncode
        report["demo_patched_tail"] = (r1.stdout + r1.stderr)[-400:]
        if tests:
            rt = sh(TESTS, cwd=wd, env=env, timeout=3600)
            report["tests_pass_patched"] = rt.returncode == 0
            report["tests_tail"] = rt.stdout[-300:]
            sh(["git", "clean", "-fdq", "examples"], cwd=wd)
        ok = report["demo_clean_exit"] == 0 and report["demo_patched_exit"] != 0 and report["touches_only_package"] and \
            (not tests or report["tests_pass_patched"])
        report["accepted"] = bool(ok)
        if ok:
            dst = VERIF / "seeded" / name
            dst.mkdir(parents=True, exist_ok=True)
            shutil.copy(patch, dst / "patch.diff")
            shutil.copy(demo, dst / "demo.py")
            m = meta.get(letter, {})
            json.dump({"property": pid, "name": name, "summary": m.get("summary"), "needs_to_manifest": m.get("needs_to_manifest"),
                       "files_changed": files, "author": "independent sub-agent given only the property text and a scratch worktree",
                       "confirmed": {"demo_exit_on_clean_tree": 0, "demo_exit_with_patch": report["demo_patched_exit"],
                                     "existing_tests_with_patch": "pass (bridgmanite tests deselected: empty input file in this snapshot)",
                                     "how": "tools/seeded.py verify %s %s  (fresh scratch worktree of /repo HEAD, git apply, demo, pytest)" % (pid, letter)},
                       "checks": {}}, open(dst / "meta.json", "w"), indent=1)
        return report
    finally:
        drop(wd)


def run_checks(name, in_repo=False):
    d = VERIF / "seeded" / name
    meta = json.load(open(d / "meta.json"))
    props = [meta["property"]] + list(meta.get("also", []))
    if in_repo:
        target = "/repo"
        assert sh(["git", "-C", "/repo", "status", "--porcelain"]).stdout.strip() == "", "/repo is not clean"
        r = sh(["git", "-C", "/repo", "apply", str(d / "patch.diff")])
        assert r.returncode == 0, r.stderr
        env = dict(os.environ)
    else:
        target = scratch("run-" + name)
        r = sh(["git", "apply", str(d / "patch.diff")], cwd=target)
        if r.returncode != 0:
            # the repository moved on since the change was written (later fix: commits touch the same lines): three-way merge
            r = sh(["git", "apply", "--3way", str(d / "patch.diff")], cwd=target)
        if r.returncode != 0:
            drop(target)
            out = {meta["property"]: {"exit": None, "verdict": "PATCH-NO-LONGER-APPLIES", "mechanisms": [], "note": r.stderr[-300:]}}
            prev = (meta.get("checks") or {}).get("scratch")
            meta.setdefault("checks", {})["scratch_latest_attempt"] = out
            json.dump(meta, open(d / "meta.json", "w"), indent=1)
            return {meta["property"]: {"exit": None, "verdict": "CAUGHT" if prev and prev.get(meta["property"], {}).get("verdict") == "CAUGHT" else "PATCH-NO-LONGER-APPLIES",
                                       "mechanisms": ["(patch conflicts with a later fix: commit; last verdict kept)"]}}
        env = dict(os.environ, VERIF_REPO=target)
    out = {}
    try:
        for prop in props:
            p = sh([str(VERIF / "vcheck"), prop, "--tier", "quick", "--no-evidence"], env=env, timeout=3600)
            mech = [ln.strip()[len("mechanism: "):] for ln in p.stdout.splitlines() if ln.strip().startswith("mechanism:")]
            out[prop] = {"exit": p.returncode, "verdict": "CAUGHT" if p.returncode == 1 else "MISSED" if p.returncode == 0 else "INCONCLUSIVE",
                         "mechanisms": mech[:4]}
            th = meta.get("thorough_case")      # a change that needs a class only the thorough tier contains: replay that one case
            if th and prop == meta["property"] and p.returncode == 0:
                rp = f"/tmp/sv/replay-{name}.json"
                json.dump({"seed": 0, "tier": "thorough", "case_id": th, "property": prop}, open(rp, "w"))
                p2 = sh([str(VERIF / "vcheck"), prop, "--replay", rp, "--no-evidence"], env=env, timeout=7200)
                mech2 = [ln.strip()[len("mechanism: "):] for ln in p2.stdout.splitlines() if ln.strip().startswith("mechanism:")]
                os.unlink(rp)
                if p2.returncode == 1:
                    out[prop] = {"exit": 1, "verdict": "CAUGHT", "tier": f"thorough (case {th}); the quick tier misses it", "mechanisms": mech2[:4]}
    finally:
        if in_repo:
            sh(["git", "-C", "/repo", "checkout", "--", "."])
        else:
            drop(target)
    meta.setdefault("checks", {})["in_repo" if in_repo else "scratch"] = out
    json.dump(meta, open(d / "meta.json", "w"), indent=1)
    return out


def main():
    cmd = sys.argv[1]
    if cmd == "verify":
        opt = {a.split("=")[0]: a.split("=")[1] for a in sys.argv[4:] if "=" in a}
        rep = verify(sys.argv[2], sys.argv[3], tests="--no-tests" not in sys.argv, srcdir=opt.get("--src", "/tmp/seeded-out"), store_as=opt.get("--as"))
        print(json.dumps(rep, indent=1))
    elif cmd in ("run", "run-in-repo"):
        names = [a for a in sys.argv[2:] if not a.startswith("--")] or sorted(p.name for p in (VERIF / "seeded").iterdir() if p.is_dir())
        missed = 0
        for n in names:
            out = run_checks(n, in_repo=(cmd == "run-in-repo"))
            for prop, r in out.items():
                print(f"{n:10s} {prop} {r['verdict']:8s} {'; '.join(r['mechanisms'])[:150]}")
                missed += r["verdict"] != "CAUGHT" and prop == n.split("-")[0]
        print(f"{missed} not caught by their own property's check")


if __name__ == "__main__":
    main()
