"""Fresh-process canonical values: construct a Calculator, digest every result array, write outputs.

usage: python -m rtmon.canon_dump <settings> <out.json> <outdir>
"""
import hashlib
import json
import os
import sys

import numpy


def digest(a):
    a = numpy.ascontiguousarray(numpy.asarray(a, dtype=float))
    return hashlib.sha256(a.tobytes()).hexdigest()[:20]


def property_names(calc):
    names = []
    for key in calc.modulus_keys:
        a, b = (int(x) for x in key.voigt)
        for base in ("tv", "tp"):
            names += [f"{base}:c{a}{b}s", f"{base}:c{a}{b}t"]
    for key in calc._compliances:
        a, b = (int(x) for x in key.voigt)
        names += [f"tv:s{a}{b}", f"tp:s{a}{b}"]
    for base in ("tv", "tp"):
        for p in ("bulk_modulus_voigt", "bulk_modulus_reuss", "bulk_modulus_voigt_reuss_hill", "shear_modulus_voigt", "shear_modulus_reuss",
                  "shear_modulus_voigt_reuss_hill", "primary_velocities", "secondary_velocities"):
            names.append(f"{base}:{p}")
    names += ["tv:pressures", "tp:volumes", "tv:v_array", "tv:t_array", "tp:p_array"]
    return names


def read_property(calc, name):
    base, prop = name.split(":")
    iface = calc.volume_base if base == "tv" else calc.pressure_base
    if prop[0] == "c" and prop[1].isdigit():
        from cij.util import c_
        key = c_(prop[1:3])
        store = iface.modulus_isothermal if prop.endswith("t") else iface.modulus_adiabatic
        return store[key]
    return getattr(iface, prop)


def main():
    settings, out, outdir = sys.argv[1:4]
    import cij.core.calculator as cc
    with numpy.errstate(all="ignore"):
        calc = cc.Calculator(settings)
        res = {}
        for nm in property_names(calc):
            try:
                res[nm] = digest(read_property(calc, nm))
            except AttributeError:
                res[nm] = "unavailable"
        os.makedirs(outdir, exist_ok=True)
        os.chdir(outdir)
        calc.write_output()
    files = {f: hashlib.sha256(open(f, "rb").read()).hexdigest()[:20] for f in sorted(os.listdir("."))}
    json.dump({"properties": res, "files": files}, open(out, "w"))


if __name__ == "__main__":
    main()
