"""End-to-end harness: run the real Calculator on a data set with all monitors attached."""
import os
import shutil
import tempfile

import numpy

from .monitors import NonShearMonitor, TaskMonitor
from .trace import hook_lazy, hook_method
from .runner import classify_exception, exc_site, exc_text


class E2E:
    """Attach monitors to the real classes; ``run(settings)`` builds a real Calculator.

    Observations of the latest run are kept in ``obs``:
      axial_strains : array (ntv,3) returned by FullThermalElasticModulus.get_axial_strains
      frames        : list of (voigt pair, strain (ntv,3), T (3,3), D (3,3)) for every shear object
      v2p           : list of (input field, output field) for every CijPressureBaseInterface.v2p call
    """

    def __init__(self, ctx, nonshear=True, tasks=True, judge_gap=True):
        self.ctx = ctx
        self.current = {"id": None}
        self.undo = []
        self.obs = {}
        self.ns = NonShearMonitor(ctx, lambda: self.current["id"], judge_gap=judge_gap) if nonshear else None
        self.tm = TaskMonitor(ctx, lambda: self.current["id"]) if tasks else None
        self.tmp = tempfile.mkdtemp(prefix=f"e2e-{ctx.prop}-")

    def __enter__(self):
        import cij.core.calculator as cc
        import cij.core.full_modulus as fm
        import cij.core.phonon_contribution.shear as sh
        self.cc = cc
        if self.ns:
            self.ns.attach()
        if self.tm:
            self.tm.attach()
        e = self

        def axial_after(args, kwargs, result, exc):
            if exc is None:
                e.obs["axial_strains"] = numpy.array(result)
        self.undo.append(hook_method(fm.FullThermalElasticModulus, "get_axial_strains", after=axial_after))

        def frame_obs(obj, name, value):
            e.obs.setdefault("frames", []).append((tuple(int(x) for x in obj.key.voigt), numpy.array(obj.strain, dtype=float),
                                                   numpy.array(value), numpy.array(obj.fictitious_strain_rotated)))
        self.undo.append(hook_lazy(sh.ShearElasticModulusPhononContribution, "transformation_matrix", frame_obs))

        def v2p_after(args, kwargs, result, exc):
            if exc is None:
                e.obs.setdefault("v2p", []).append((numpy.array(args[1]), numpy.array(result)))
            else:
                e.obs.setdefault("v2p_errors", []).append(exc)
        self.undo.append(hook_method(cc.CijPressureBaseInterface, "v2p", after=v2p_after))
        return self

    def __exit__(self, *a):
        for u in reversed(self.undo):
            u()
        if self.ns:
            self.ns.detach()
        if self.tm:
            self.tm.detach()
        shutil.rmtree(self.tmp, ignore_errors=True)

    def workdir(self, name):
        wd = os.path.join(self.tmp, name)
        shutil.rmtree(wd, ignore_errors=True)
        os.makedirs(wd)
        return wd

    def run(self, settings_path, case_id=None, spectrum=None):
        """Construct a real Calculator.  Returns (calc, None) or (None, exception)."""
        self.current["id"] = case_id
        self.obs = {}
        if self.ns is not None:
            self.ns.default_spectrum = spectrum
        try:
            with numpy.errstate(all="ignore"):
                calc = self.cc.Calculator(str(settings_path))
            return calc, None
        except Exception as exc:
            return None, exc
        finally:
            if self.ns is not None:
                self.ns.default_spectrum = None

    def report_construction_failure(self, exc, case_id, cls, data=None, prefix="construction"):
        ctx = self.ctx
        if classify_exception(exc) == "code":
            ctx.violation(f"{prefix}-raises:{type(exc).__name__}:{exc_site(exc)}:{cls}", f"{cls}: Calculator(settings) raised\n{exc_text(exc)}", case_id, data)
        else:
            ctx.harness_error("E2E.run", exc)
