"""W-spec: duck-typed calculator exposing exactly what the phonon-contribution
classes read, built on a closed-form spectrum registered with the oracle."""
from types import SimpleNamespace

import numpy

from ..oracles.fph import Spectrum


def gen_spectrum(rng, nq=None, natoms=None, hostile=None):
    nq = int(rng.integers(1, 9)) if nq is None else nq
    natoms = int(rng.integers(1, 11)) if natoms is None else natoms
    np_ = 3 * natoms
    w0 = rng.uniform(30, 1500, size=(nq, np_))
    g0 = rng.uniform(-1, 4, size=(nq, np_))
    a = rng.uniform(-3, 3, size=(nq, np_))
    b = rng.uniform(-3, 3, size=(nq, np_))
    weights = 10 ** rng.uniform(-3, 3, size=nq)
    if hostile == "near-degenerate":
        w0 = 400 + rng.uniform(0, 1e-6, size=(nq, np_))
    elif hostile == "huge-weight":
        weights[int(rng.integers(0, nq))] = 1e6
    elif hostile == "high-frequencies":
        w0 = rng.uniform(1300, 1500, size=(nq, np_))
    elif hostile == "weights-as-rounded-fractions":
        # Brillouin-zone fractions printed with three decimals: they sum to 1 only approximately (0.992 .. 1)
        m_ = rng.integers(1, 9, size=nq).astype(float)
        weights = numpy.floor(m_ / m_.sum() * 1000) / 1000        # truncated, as a fixed-width print does
        weights[weights == 0] = 0.001
    v0 = float(rng.uniform(60, 900))
    return Spectrum(v0, w0, g0, a, b, weights, natoms)


def gen_grids(rng, spec, hostile=None):
    ntv = int(rng.integers(2, 41))
    v = spec.v0 * numpy.exp(numpy.sort(rng.uniform(-0.25, 0.12, size=ntv)))
    if rng.random() < 0.7:
        v = v[::-1].copy()            # descending (the usual order) or ascending
    nt = int(rng.integers(1, 13))
    kind = int(rng.integers(0, 5))
    if kind == 0:
        t = numpy.arange(nt) * float(rng.choice([0.5, 2, 50, 100, 500]))           # starts at 0
    elif kind == 1:
        t = float(rng.choice([0.5, 1, 3, 10, 300])) + numpy.arange(nt) * float(rng.choice([0.5, 2, 50, 500]))
    elif kind == 2:
        t = 10 ** rng.uniform(-3, numpy.log10(6000), size=nt)                        # arbitrary order
        t[int(rng.integers(0, nt))] = 0.0                                             # a zero anywhere
    elif kind == 3:
        t = numpy.sort(10 ** rng.uniform(-3, 1.2, size=nt))                           # very low T
    else:
        t = rng.uniform(200, 6000, size=nt)
    if hostile == "low-T":
        t = numpy.array([0.0, 1e-3, 0.5, 1.0, 2.0, 3.0, 5.0, 8.0])
    return numpy.asarray(t, dtype=float), numpy.asarray(v, dtype=float)


def gen_strains(rng, ntv, kind=None):
    """(ntv, 3) positive strain fractions, rows sum to 1, each in (0.05, 0.9)."""
    kind = kind or str(rng.choice(["constant", "varying", "equal"]))
    if kind == "equal":
        return numpy.full((ntv, 3), 1 / 3)
    while True:
        base = rng.uniform(0.08, 1.0, size=3)
        base /= base.sum()
        if kind == "constant":
            e = numpy.tile(base, (ntv, 1))
        else:
            drift = rng.uniform(-0.3, 0.3, size=3)
            e = base[None, :] * (1 + drift[None, :] * numpy.linspace(0, 1, ntv)[:, None])
            e /= e.sum(axis=1, keepdims=True)
        if e.min() > 0.05 and e.max() < 0.9:
            return e


def gamma_slot_fill(rng, arr, how):
    """What sits in the three Gamma acoustic slots of an input array."""
    arr = arr.copy()
    if how == "zero":
        arr[:, 0, :3] = 0.0
    elif how == "small-negative":
        arr[:, 0, :3] = -rng.uniform(0.01, 0.5, size=arr[:, 0, :3].shape)
    elif how == "garbage":
        arr[:, 0, :3] = rng.normal(0, 1e3, size=arr[:, 0, :3].shape)
    return arr


def make_calc(rng, spec, t, v, gamma_fill="zero", p_field=None, cv_field=None, static_p=None):
    """SimpleNamespace carrying what the contribution classes read from a Calculator."""
    nt, ntv = len(t), len(v)
    freq = gamma_slot_fill(rng, spec.omega(v), gamma_fill)
    g = gamma_slot_fill(rng, spec.gamma(v), gamma_fill)
    dg = gamma_slot_fill(rng, spec.vdgdv(v), gamma_fill)
    if p_field is None:
        p_field = rng.normal(0, 3e-3, size=(nt, 1)) + numpy.linspace(-1e-3, 8e-3, ntv)[None, :] * rng.uniform(0.5, 2)
    if static_p is None:
        static_p = numpy.linspace(-1.2e-3, 7e-3, ntv) * rng.uniform(0.5, 2)
    if cv_field is None:
        cv_field = 10 ** rng.uniform(-6, -3, size=(nt, ntv))
    vb = SimpleNamespace(pressures=p_field, heat_capacity=cv_field)
    calc = SimpleNamespace(
        nv=4, np=spec.np, nq=spec.nq, na=spec.natoms,
        v_array=v, t_array=t, freq_array=freq, mode_gamma=[dg, g, g ** 2],
        static_p_array=static_p,
        qha_input=SimpleNamespace(weights=[((0.0, 0.0, float(i)), float(w)) for i, w in enumerate(spec.weights)]),
        qha_calculator=SimpleNamespace(volume_base=vb),
    )
    return calc


def spec_digest(spec, t, v):
    return (round(spec.v0, 6), spec.nq, spec.np, float(spec.w0.sum()), float(spec.g0.sum()), len(t), len(v), float(t.sum()), float(v.sum()))
