"""W-files: synthetic but physical data sets written by the oracle's own writers.

A data set = phonon file (input01), static elasticity table (input02) and a settings
file, in a scratch directory.  Everything needed to recompute the expected results
is kept in the returned ``DataSet`` object.
"""
import json
import os
from types import SimpleNamespace

import numpy
import yaml

from ..oracles import fileio as F
from ..oracles import laue
from ..oracles import tensor as T
from ..oracles import units as U
from ..oracles.fph import Spectrum

INTERPOLATORS = ["spline", "lsq_poly", "lagrange", "krogh", "pchip", "hermite", "akima"]


def admissible_orders(method, nv):
    if method == "spline":
        return [k for k in range(2, 6) if k < nv]
    if method == "lsq_poly":
        return [k for k in range(1, 6) if k < nv]
    return [k for k in range(2, 9) if k < nv]


def bm3_energy(v, v0, k0, kp, e0):
    """Third-order Birch-Murnaghan E(V); k0 in Ry/bohr^3."""
    x = (v0 / v) ** (2.0 / 3.0)
    return e0 + 9.0 * v0 * k0 / 16.0 * ((x - 1) ** 3 * kp + (x - 1) ** 2 * (6 - 4 * x))


class DataSet(SimpleNamespace):
    pass


def gen_dataset(rng, system=None, nv=None, nq=None, natoms=None, lattice=None, data_class="power-law", components="needed",
                static_volumes=None, energy_class="bm3", zero_weight=False):
    system = system or str(rng.choice(laue.SYSTEMS))
    if static_volumes is None:
        static_volumes = str(rng.choice(["same", "independent", "same-count-shifted"]))
    nv = int(rng.integers(4, 13)) if nv is None else nv
    nq = int(rng.integers(1, 9)) if nq is None else nq
    natoms = int(rng.integers(1, 11)) if natoms is None else natoms
    np_ = 3 * natoms
    v0 = float(rng.uniform(80, 900)) if rng.random() < 0.6 else float(rng.uniform(900, 3000))
    k0 = float(rng.uniform(90, 220)) / U.GPA_PER_AU
    kp = float(rng.uniform(3.5, 5.0))
    e0 = float(rng.uniform(-400, -10))
    # sampled range: a wide compression study (1.08..0.78 V0) or the narrower ranges of typical input files
    hi_, lo_ = [(1.08, 0.78), (1.05, 0.85), (1.03, 0.90)][int(rng.integers(0, 3))]
    volumes = v0 * numpy.linspace(hi_, lo_, nv) * (1 + rng.uniform(-0.004, 0.004, nv) * (nv > 4) * (hi_ - lo_) / 0.3)
    volumes = numpy.sort(volumes)[::-1].copy()
    energies = bm3_energy(volumes, v0, k0, kp, e0)
    if energy_class == "noncubic":
        # E(V) that is not a cubic in Eulerian strain (fourth/fifth-order finite-strain terms): EoS fits of different orders differ
        sub = numpy.random.default_rng(int(abs(e0) * 1e6) % (2 ** 31))
        c4_, c5_ = float(sub.uniform(-12, 12)), float(sub.uniform(-40, 40))

        def extra_(vv, s_):
            f_ = ((v0 / vv) ** (2.0 / 3.0) - 1) / 2
            return 4.5 * v0 * k0 * s_ * (c4_ * f_ ** 4 + c5_ * f_ ** 5)
        # keep the curve physical: pressure must rise monotonically (bulk modulus > 0) with a margin on the whole range any
        # calculation may extrapolate to (volume_ratio up to 1.5); otherwise the high-order terms are scaled down
        vfine = numpy.linspace(volumes.min() / 1.5, volumes.max() * 1.5, 400)
        s_ = 1.0
        for _ in range(12):
            e_ = bm3_energy(vfine, v0, k0, kp, e0) + extra_(vfine, s_)
            p_ = -numpy.gradient(e_, vfine)
            kt_ = -vfine * numpy.gradient(p_, vfine)
            kt3_ = -vfine * numpy.gradient(-numpy.gradient(bm3_energy(vfine, v0, k0, kp, e0), vfine), vfine)
            if numpy.all(kt_[2:-2] > 0.5 * kt3_[2:-2]) and numpy.all(kt_[2:-2] < 2.0 * kt3_[2:-2]):
                break
            s_ *= 0.6
        energies = energies + extra_(volumes, s_)
    # spectrum: unique (w0,g0) per mode; moderate anharmonic parameters
    w0 = rng.uniform(80, 1200, size=(nq, np_))
    g0 = rng.uniform(0.3, 2.2, size=(nq, np_))
    if data_class == "power-law":
        a = b = numpy.zeros((nq, np_))
    elif data_class == "poly2":
        a, b = rng.uniform(-1.5, 1.5, size=(nq, np_)), numpy.zeros((nq, np_))
    else:   # poly3, generic
        a, b = rng.uniform(-1.5, 1.5, size=(nq, np_)), rng.uniform(-2, 2, size=(nq, np_))
    weights = rng.integers(1, 13, size=nq).astype(float) if rng.random() < 0.5 else 10 ** rng.uniform(-2, 2, size=nq)
    if zero_weight and nq >= 2:
        weights[int(rng.integers(0, nq))] = 0.0        # a listed q-point that carries no weight (allowed: weights only have to be >= 0)
    spec = Spectrum(v0, w0, g0, a, b, weights, natoms)
    freqs = spec.omega(volumes)
    if data_class == "generic":
        # smooth but not polynomial in ln V: only a least-squares method has a well-defined reference (its own polynomial)
        x = numpy.log(volumes / v0)[:, None, None]
        freqs = freqs * numpy.exp(0.02 * numpy.sin(6.0 * x + rng.uniform(0, 6.28, size=(nq, np_))))
    freqs[:, 0, :3] = [0.0, -float(rng.uniform(0.01, 0.5)), float(rng.uniform(-0.2, 0.2))][int(rng.integers(0, 3))]
    qcoords = rng.uniform(-0.5, 0.5, size=(nq, 3))
    qcoords[0] = 0.0
    # static table (GPa), smooth in V, on the invariant subspace of the system
    B = laue.invariant_basis(system)
    base = numpy.zeros(21)
    lam, mu = rng.uniform(60, 200), rng.uniform(50, 160)
    for n, (p, q) in enumerate(T.VOIGT21):
        base[n] = lam + 2 * mu if (p == q and p <= 3) else lam if (p <= 3 and q <= 3) else mu if p == q else 0.0
    pert = B @ rng.normal(size=B.shape[1])
    pert = pert / (numpy.abs(pert).max() + 1e-30) * rng.uniform(5, 40)
    slope = B @ rng.normal(size=B.shape[1])
    slope = slope / (numpy.abs(slope).max() + 1e-30) * rng.uniform(0, 30)
    # the static table has its own volume column: the same volumes as the phonon file, or an independent set
    if static_volumes == "same":
        svol = volumes.copy()
    else:
        ns = int(rng.integers(4, 13)) if static_volumes == "independent" else nv
        svol = numpy.sort(v0 * numpy.linspace(hi_ + 0.02, lo_ - 0.02, ns) * (1 + rng.uniform(-0.01, 0.01, ns) * (hi_ - lo_) / 0.3))[::-1].copy()
    comp = (v0 / svol - 1.0)[:, None]
    table = (base + pert)[None, :] * (1 + 3.5 * comp + 2.0 * comp ** 2) + slope[None, :] * comp       # (nv, 21) GPa
    nonzero = [n for n in range(21) if numpy.any(B[n, :])]
    if components == "needed":
        cols = nonzero if system in ("triclinic",) else _needed_subset(rng, system, nonzero)
    elif components == "all-nonzero":
        cols = nonzero
    elif components == "ortho9":
        cols = [n for n in range(21) if T.VOIGT21[n] in ((1, 1), (2, 2), (3, 3), (1, 2), (1, 3), (2, 3), (4, 4), (5, 5), (6, 6))]
    else:
        cols = list(components)
    # lattice parameters
    lat = None
    lat_s = None
    if lattice is None:
        lattice = bool(rng.integers(0, 2))
    if lattice:
        s = rng.permutation([0.2, 0.3, 0.5]) + rng.uniform(-0.03, 0.03, 3)
        s = s / s.sum()
        a0 = rng.uniform(3, 12, 3)
        lat = a0[None, :] * (svol[:, None] / v0) ** s[None, :]
        lat_s = s
    cellmass = float(rng.uniform(40, 600))
    return DataSet(system=system, nv=nv, nq=nq, natoms=natoms, np=np_, v0=v0, k0=k0, kp=kp, e0=e0, volumes=volumes, energies=energies,
                   spec=spec, freqs=freqs, qcoords=qcoords, weights=weights, table_gpa=table, columns=cols, lattice=lat, lattice_exponents=lat_s,
                   cellmass=cellmass, data_class=data_class, static_volumes=svol, energy_class=energy_class)


def _needed_subset(rng, system, nonzero):
    """A sufficient subset of the symmetry-allowed components that also contains the nine
    orthotropic ones after filling; supersets with probability 1/2."""
    from . import filltables as FT
    S = FT.minimal_sufficient(rng, system)
    if rng.random() < 0.5:
        S = sorted(set(S) | {n for n in nonzero if rng.random() < 0.5})
    return S


def gen_settings(rng, ds, interpolator=None, order=None, nt=None, dt=None, tmin=None, ntv=None, volume_ratio=None, use_system=True, eos_order=3):
    interpolator = interpolator or "lsq_poly"
    orders = admissible_orders(interpolator, ds.nv)
    order = order if order is not None else int(rng.choice(orders))
    if ds.data_class == "poly2" and interpolator == "lsq_poly":
        order = max(order, 2) if 2 in orders or order >= 2 else order
    if ds.data_class == "poly3" and interpolator == "lsq_poly":
        order = max(order, 3)
    qs = {"T_MIN": float(tmin if tmin is not None else rng.choice([0, 0, 0, 10, 300])),
          "DT": float(dt if dt is not None else rng.choice([2, 50, 100, 500])),
          "NT": int(nt if nt is not None else rng.integers(2, 17)),
          "NTV": int(ntv if ntv is not None else rng.integers(8, 81)),
          "DT_SAMPLE": None, "DELTA_P_SAMPLE": None,
          "P_MIN": 0.0, "DELTA_P": 1.0, "order": int(eos_order), "static_only": False,
          "volume_ratio": float(volume_ratio if volume_ratio is not None else rng.choice([1.05, 1.2, 1.4]))}
    qs["DT_SAMPLE"] = qs["DT"]
    es = {"mode_gamma": {"interpolator": interpolator, "order": int(order)}}
    if use_system:
        es["symmetry"] = {"system": ds.system}
    cfg = {"qha": {"input": "input01", "settings": qs}, "elast": {"input": "input02", "settings": es}}
    return cfg


def probe_pressure_range(ds, cfg, wd):
    """(p_lo, p_hi) in GPa: the desired pressures must lie in (p_lo, p_hi) at every temperature.
    Harness-level probing with the QHA layer only (nothing is judged here)."""
    import copy
    from qha.settings import DEFAULT_SETTINGS
    from cij.core.qha_adapter import QHACalculator
    from cij.io.traditional import read_energy
    s = copy.copy(DEFAULT_SETTINGS)
    s.update(cfg["qha"]["settings"])
    qc = QHACalculator(s)
    qc.read_input(read_energy(os.path.join(wd, cfg["qha"]["input"])))
    qc.refine_grid()
    p = qc.p_tv_gpa
    return float(p[:, 1].max()), float(p[:, -1].min()), p


def place_pressures(rng, cfg, p_lo, p_hi, inside=True, margin=0.02):
    """Choose P_MIN / DELTA_P so that the NTV requested pressures are inside (or overshoot) the range."""
    qs = cfg["qha"]["settings"]
    ntv = qs["NTV"]
    span = p_hi - p_lo
    if inside:
        lo = p_lo + span * (margin + rng.uniform(0, 0.15))
        hi = p_hi - span * (margin + rng.uniform(0, 0.3))
        qs["P_MIN"] = float(lo)
        qs["DELTA_P"] = float((hi - lo) / max(ntv - 1, 1))
    else:
        lo = p_lo + span * (margin + rng.uniform(0, 0.15))
        top = p_hi + abs(p_hi) * float(rng.choice([0.01, 0.05, 0.5, 3.0])) + 0.01
        qs["P_MIN"] = float(lo)
        qs["DELTA_P"] = float((top - lo) / max(ntv - 1, 1))
    qs["DELTA_P_SAMPLE"] = qs["DELTA_P"]
    return cfg


def write_dataset(ds, cfg, wd, settings_name="settings.yaml", column_spelling=None, column_order=None, row_order=None,
                  q_order=None, mode_perm=None, weight_scale=1.0, volume_order=None, table_scale=1.0, swap_columns=None):
    """Write the three files.  The keyword arguments re-present the same physical data (C13)."""
    os.makedirs(wd, exist_ok=True)
    for rel in (cfg["qha"]["input"], cfg["elast"]["input"]):
        os.makedirs(os.path.dirname(os.path.join(wd, rel)), exist_ok=True)
    nv, nq, np_ = ds.freqs.shape
    q_order = list(range(nq)) if q_order is None else list(q_order)
    volume_order = list(range(nv)) if volume_order is None else list(volume_order)
    freqs = ds.freqs[:, q_order, :]
    if mode_perm is not None:
        freqs = numpy.stack([freqs[:, j, mode_perm[j]] for j in range(nq)], axis=1)
    F.write_input01(os.path.join(wd, cfg["qha"]["input"]), ds.volumes[volume_order], ds.energies[volume_order], freqs[volume_order],
                    ds.qcoords[q_order], (ds.weights * weight_scale)[q_order], nm=1, na=ds.natoms, float_fmt="%.14f")
    cols = list(ds.columns) if column_order is None else list(column_order)
    spell = column_spelling or (lambda a, b: "c%d%d" % (a, b))
    table = ds.table_gpa * table_scale
    if swap_columns:
        table = table.copy()
        i, j = swap_columns
        table[:, [i, j]] = table[:, [j, i]]
    rows = list(range(len(ds.static_volumes))) if row_order is None else list(row_order)
    F.write_input02(os.path.join(wd, cfg["elast"]["input"]), ds.v0, ds.cellmass, ds.static_volumes[rows],
                    [(spell(*T.VOIGT21[n]), table[rows, n]) for n in cols],
                    lattice=None if ds.lattice is None else ds.lattice[rows], fmt="%.14f")
    path = os.path.join(wd, settings_name)
    with open(path, "w") as fp:
        if settings_name.endswith(".json"):
            json.dump(cfg, fp)
        else:
            yaml.safe_dump(cfg, fp)
    return path
