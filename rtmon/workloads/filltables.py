"""Generated static-elasticity tables for the fill checks (C08, C09, C17)."""
import numpy

from ..oracles import laue
from ..oracles import tensor as T

NAMES = ["c%d%d" % p for p in T.VOIGT21]


def invariant_field(rng, system, nrows, integer=False, one_signed_with_zero=False):
    """(nrows, 21) array of tensors exactly on the invariant subspace."""
    B = laue.invariant_basis(system)
    if integer:
        coef = rng.integers(-20, 60, size=(nrows, B.shape[1])) * 2.0      # even => (c11-c12)/2 stays integral
        field = coef @ B.T
        return numpy.round(field)
    coef = rng.normal(150, 90, size=(nrows, B.shape[1]))
    if one_signed_with_zero and nrows >= 2:
        # one independent coefficient keeps one sign along the volumes and is exactly zero at the first or the last one
        # (a small component that vanishes at one end of the tabulated range)
        j = int(rng.integers(0, B.shape[1]))
        ramp = numpy.linspace(0.0, float(rng.uniform(2, 30)), nrows) * float(rng.choice([-1.0, 1.0]))
        coef[:, j] = ramp if rng.random() < 0.5 else ramp[::-1]
    return coef @ B.T


def minimal_sufficient(rng, system):
    """A minimal sufficient set of supplied coordinates (random greedy rank growth)."""
    B = laue.invariant_basis(system)
    order = rng.permutation(21)
    chosen, rank = [], 0
    for i in order:
        r = numpy.linalg.matrix_rank(B[chosen + [int(i)], :], tol=1e-9)
        if r > rank:
            chosen.append(int(i))
            rank = r
        if rank == B.shape[1]:
            break
    return sorted(chosen)


def insufficient_subset(rng, system):
    """Drop coordinates from a sufficient set until the rank test must fail."""
    S = minimal_sufficient(rng, system)
    k = int(rng.integers(1, len(S) + 1)) if len(S) > 1 else 1
    drop = set(rng.choice(S, size=k, replace=False).tolist())
    S2 = [i for i in S if i not in drop]
    # add coordinates that cannot raise the rank back to full
    B = laue.invariant_basis(system)
    for i in rng.permutation(21):
        i = int(i)
        if i in S2 or i in drop:
            continue
        if numpy.linalg.matrix_rank(B[S2 + [i], :], tol=1e-9) < B.shape[1] and rng.random() < 0.3:
            S2.append(i)
    return sorted(S2)


def superset(rng, S, p=0.35):
    return sorted(set(S) | {i for i in range(21) if rng.random() < p})


INDEX_KINDS = ["default", "offset", "shuffled-labels", "volume-as-index", "strings"]


def reindex(df, kind, rng=None):
    """Give the table another (still unique) row index; row positions and values are untouched."""
    n = len(df)
    if kind == "default" or n == 0:
        return df
    df = df.copy()
    if kind == "offset":
        df.index = range(3, 3 + n)
    elif kind == "shuffled-labels":
        df.index = (rng.permutation(n) if rng is not None else numpy.arange(n)[::-1])
    elif kind == "volume-as-index":
        df.index = [round(700.0 - 7.5 * i, 3) for i in range(n)]
    elif kind == "strings":
        df.index = ["v%02d" % i for i in range(n)][::-1]
    return df


def make_frame(field, supplied, rng=None, extra=None, upper=False, shuffle=False, as_int=False, volumes=True):
    """DataFrame with a V column, the supplied modulus columns and optional extra columns."""
    import pandas
    nrows = field.shape[0]
    cols = {}
    if volumes:
        cols["V"] = numpy.linspace(620.0, 500.0, nrows) if nrows > 1 else numpy.array([560.0])
    names = [NAMES[i] for i in supplied]
    order = list(range(len(names)))
    if shuffle and rng is not None:
        order = list(rng.permutation(len(names)))
    for o in order:
        nm = names[o].upper() if upper else names[o]
        col = field[:, supplied[o]]
        cols[nm] = col.astype(numpy.int64) if as_int else col.astype(float)
    if extra:
        items = list(extra.items())
        for k, v in items:
            cols[k] = v
        if shuffle and rng is not None:
            keys = list(cols)
            keys = [keys[i] for i in rng.permutation(len(keys))]
            cols = {k: cols[k] for k in keys}
    return pandas.DataFrame(cols)


def frame_moduli(df):
    """{canonical lower-case name: column values} of the modulus columns of a result frame."""
    out = {}
    for c in df.columns:
        lc = str(c).lower()
        if lc in NAMES:
            out[lc] = df[c].to_numpy(dtype=float)
    return out
