"""Tiered runner: shard fan-out, watchdogs, three-valued verdict, evidence.

Parent side (``main``) launches one worker subprocess per shard (never
multiprocessing.Pool: a dying child would hang it), merges their partial
results, classifies violations against known_findings.json, writes
evidence/<id>.json and prints VIOLATION / KNOWN-FINDING / INCONCLUSIVE lines.

Worker side (``worker_main``) imports the check module and the code under test
from the repository working tree and runs the cases of its shard.
"""
import argparse
import hashlib
import importlib
import json
import os
import subprocess
import sys
import tempfile
import time
import traceback
from pathlib import Path

VERIF = Path(__file__).resolve().parent.parent
PY = "/venv/bin/python"
NCPU = 16


def repo_dir() -> str:
    return os.environ.get("VERIF_REPO", "/repo")


def ensure_deps():
    """icontract/deal live in the git-ignored .deps; (re)install when absent."""
    deps = VERIF / ".deps"
    if (deps / "icontract").is_dir():
        return
    import fcntl
    lock = open(VERIF / ".deps.lock", "w")
    fcntl.flock(lock, fcntl.LOCK_EX)
    try:
        if not (deps / "icontract").is_dir():
            subprocess.run(
                [PY, "-m", "pip", "install", "-q", "--no-index", "--find-links",
                 "/opt/veriftools/wheels", "--target", str(deps), "icontract", "deal"],
                check=True, stdout=subprocess.DEVNULL, stderr=subprocess.DEVNULL)
    finally:
        fcntl.flock(lock, fcntl.LOCK_UN)


def _slug(s: str) -> str:
    keep = "".join(c if c.isalnum() or c in "-_." else "_" for c in s)
    return keep[:80] + "-" + hashlib.sha1(s.encode()).hexdigest()[:8]


def jsonable(o):
    import numpy
    if isinstance(o, dict):
        return {str(k): jsonable(v) for k, v in o.items()}
    if isinstance(o, (list, tuple, set, frozenset)):
        return [jsonable(v) for v in o]
    if isinstance(o, numpy.ndarray):
        return jsonable(o.tolist())
    if isinstance(o, (numpy.integer,)):
        return int(o)
    if isinstance(o, (numpy.floating, float)):
        o = float(o)
        return o if o == o and abs(o) != float("inf") else repr(o)
    if isinstance(o, (numpy.bool_,)):
        return bool(o)
    if isinstance(o, complex):
        return {"re": o.real, "im": o.imag}
    if isinstance(o, (str, int, float, bool)) or o is None:
        return o
    if isinstance(o, Path):
        return str(o)
    return repr(o)


class Ctx:
    """What a check module sees while running its cases."""

    def __init__(self, prop, tier, seed, shard=0, nshards=1, only=None):
        self.prop = prop
        self.tier = tier
        self.seed = seed
        self.shard = shard
        self.nshards = nshards
        self.only = only            # case id to replay, or None
        self.evaluations = 0
        self.sigs = set()           # digests of distinct non-trivial cases
        self.by_class = {}
        self.samples = []
        self.counters = {}
        self.maxima = {}
        self.violations = {}        # mechanism -> first witness
        self.violation_counts = {}
        self.inconclusive = []
        self.required = {}          # counter name -> floor
        self.notes = {}

    # -- case bookkeeping -------------------------------------------------
    @property
    def quick(self):
        return self.tier == "quick"

    def pick(self, quick, thorough):
        return quick if self.tier == "quick" else thorough

    def mine(self, index, case_id=None) -> bool:
        """Does case ``index`` belong to this shard (or is it the replayed one)?"""
        if self.only is not None:
            return case_id == self.only if case_id is not None else str(index) == str(self.only)
        return index % self.nshards == self.shard

    def rng(self, *key):
        import numpy
        pnum = int(self.prop[1:])
        ks = [int(hashlib.sha1(str(k).encode()).hexdigest()[:8], 16) if not isinstance(k, int) else k for k in key]
        return numpy.random.default_rng([self.seed, pnum, *ks])

    def evaluation(self, cls, sig=None, nontrivial=True, sample=None, n=1):
        """Register ``n`` executions of the code under test observed by a monitor."""
        self.evaluations += n
        self.by_class[cls] = self.by_class.get(cls, 0) + n
        if nontrivial and sig is not None:
            self.sigs.add(hashlib.sha1(repr((cls, sig)).encode()).hexdigest()[:14])
        if sample is not None and len(self.samples) < 3 and self.shard == 0:
            if all(s.get("class") != cls for s in self.samples):
                self.samples.append({"class": cls, **jsonable(sample)})

    def count(self, name, n=1):
        self.counters[name] = self.counters.get(name, 0) + n

    def maxi(self, name, value):
        value = float(value)
        if value != value:
            value = float("inf")
        if value > self.maxima.get(name, float("-inf")):
            self.maxima[name] = value

    def require(self, name, floor=1):
        """Declare that counter ``name`` must reach ``floor`` or the run is inconclusive."""
        self.required[name] = max(floor, self.required.get(name, 0))

    def note(self, key, value):
        self.notes[key] = jsonable(value)

    def violation(self, mechanism, message, case_id=None, data=None):
        self.violation_counts[mechanism] = self.violation_counts.get(mechanism, 0) + 1
        if mechanism not in self.violations:
            self.violations[mechanism] = {
                "mechanism": mechanism, "message": message[:2000], "case_id": case_id,
                "data": jsonable(data) if data is not None else None,
            }

    def inconc(self, reason):
        if len(self.inconclusive) < 50:
            self.inconclusive.append(str(reason)[:600])
        self.count("inconclusive_cases")

    def harness_error(self, where, exc):
        self.inconc(f"harness error in {where}: {exc!r}\n" + "".join(traceback.format_exception(exc))[-1500:])

    def result(self):
        return {
            "evaluations": self.evaluations, "sigs": sorted(self.sigs), "by_class": self.by_class,
            "samples": self.samples, "counters": self.counters, "maxima": self.maxima,
            "violations": self.violations, "violation_counts": self.violation_counts,
            "inconclusive": self.inconclusive, "required": self.required, "notes": self.notes,
        }


def classify_exception(exc) -> str:
    """'code' when the innermost frame that is ours-or-theirs lies in the repo,
    'harness' when it lies in /verif/rtmon."""
    tb = traceback.extract_tb(exc.__traceback__)
    repo = os.path.realpath(repo_dir())
    for fr in reversed(tb):
        fn = os.path.realpath(fr.filename)
        if fn.startswith(repo + os.sep):
            return "code"
        if fn.startswith(str(VERIF) + os.sep):
            return "harness"
    return "harness"


def exc_site(exc) -> str:
    """Innermost repo frame as file:function (stable mechanism key, no line numbers)."""
    tb = traceback.extract_tb(exc.__traceback__)
    repo = os.path.realpath(repo_dir())
    for fr in reversed(tb):
        fn = os.path.realpath(fr.filename)
        if fn.startswith(repo + os.sep):
            return f"{os.path.relpath(fn, repo)}:{fr.name}"
    return "?"


def exc_text(exc) -> str:
    return "".join(traceback.format_exception(exc))[-1800:]


# --------------------------------------------------------------------------
# worker
# --------------------------------------------------------------------------

def worker_main(argv):
    prop, tier, seed, shard, nshards, out, only = argv
    seed, shard, nshards = int(seed), int(shard), int(nshards)
    only = None if only == "-" else only
    sys.path.append(str(VERIF / ".deps"))
    ctx = Ctx(prop, tier, seed, shard, nshards, only)
    t0 = time.time()
    try:
        import cij
        cf = os.path.realpath(cij.__file__)
        if not cf.startswith(os.path.realpath(repo_dir()) + os.sep):
            ctx.inconc(f"cij imported from {cf}, not from {repo_dir()}")
        else:
            mod = importlib.import_module(f"rtmon.checks.{prop.lower()}")
            mod.run(ctx)
    except BaseException as exc:  # noqa
        ctx.harness_error("worker", exc)
    res = ctx.result()
    res["wall_s"] = time.time() - t0
    with open(out, "w") as fp:
        json.dump(res, fp)


# --------------------------------------------------------------------------
# parent
# --------------------------------------------------------------------------

def load_known():
    p = VERIF / "known_findings.json"
    if not p.exists():
        return []
    return json.load(open(p)).get("findings", [])


def main(argv=None):
    ap = argparse.ArgumentParser()
    ap.add_argument("prop")
    ap.add_argument("--tier", default=os.environ.get("VERIF_TIER", "quick"), choices=["quick", "thorough"])
    ap.add_argument("--replay")
    ap.add_argument("--jobs", type=int, default=0)
    ap.add_argument("--no-evidence", action="store_true")
    a = ap.parse_args(argv)
    prop = a.prop.upper()
    seed = int(os.environ.get("VERIF_SEED", "0") or 0)
    tier = a.tier
    only = None
    if a.replay:
        rp = json.load(open(a.replay))
        seed, tier, only = rp["seed"], rp["tier"], rp["case_id"]
        if only is None:
            print(f"replay file {a.replay} has no single case id; re-running the whole tier")
    ensure_deps()
    t0 = time.time()
    sys.path.insert(0, str(VERIF))
    from rtmon.checks import META
    m = META[prop]
    nshards = 1 if only is not None else (a.jobs or m["shards"][tier])
    env = dict(os.environ)
    env["PYTHONPATH"] = f"{repo_dir()}:{VERIF}"
    env["PYTHONDONTWRITEBYTECODE"] = "1"
    env.setdefault("PYTHONHASHSEED", "0")
    env["NUMBA_NUM_THREADS"] = "1"
    env["OMP_NUM_THREADS"] = "1"
    env["OPENBLAS_NUM_THREADS"] = "1"
    env["MKL_NUM_THREADS"] = "1"
    env["MPLBACKEND"] = "Agg"
    env["VERIF_SEED"] = str(seed)
    tmp = tempfile.mkdtemp(prefix=f"vcheck-{prop}-")
    procs = []
    try:
        for s in range(nshards):
            out = os.path.join(tmp, f"part{s}.json")
            log = open(os.path.join(tmp, f"part{s}.log"), "w")
            p = subprocess.Popen(
                [PY, "-c", "import sys; from rtmon.runner import worker_main; worker_main(sys.argv[1:])",
                 prop, tier, str(seed), str(s), str(nshards), out, only if only is not None else "-"],
                env=env, stdout=log, stderr=subprocess.STDOUT, cwd=tmp)
            procs.append((p, out, log))
        deadline = t0 + m["watchdog_s"][tier]
        parts, problems = [], []
        for p, out, log in procs:
            try:
                p.wait(timeout=max(1, deadline - time.time()))
            except subprocess.TimeoutExpired:
                p.kill()
                problems.append(f"watchdog ({m['watchdog_s'][tier]} s) fired on a worker")
            log.close()
            if os.path.exists(out):
                parts.append(json.load(open(out)))
            else:
                tail = open(log.name).read()[-1500:]
                problems.append(f"worker produced no result (exit {p.returncode}): {tail}")
    finally:
        for p, _, _ in procs:
            if p.poll() is None:
                p.kill()
        subprocess.run(["rm", "-rf", tmp])

    # merge
    ev = sum(p["evaluations"] for p in parts)
    sigs = set()
    by_class, counters, maxima, required, notes = {}, {}, {}, {}, {}
    samples, violations, vcounts, inconclusive = [], {}, {}, list(problems)
    for p in parts:
        sigs.update(p["sigs"])
        for k, v in p["by_class"].items():
            by_class[k] = by_class.get(k, 0) + v
        for k, v in p["counters"].items():
            counters[k] = counters.get(k, 0) + v
        for k, v in p["maxima"].items():
            maxima[k] = max(maxima.get(k, float("-inf")), v)
        for k, v in p["required"].items():
            required[k] = max(required.get(k, 0), v)
        notes.update(p["notes"])
        samples += p["samples"]
        for k, v in p["violations"].items():
            violations.setdefault(k, v)
        for k, v in p["violation_counts"].items():
            vcounts[k] = vcounts.get(k, 0) + v
        inconclusive += p["inconclusive"]
    if only is None:
        for k, floor in required.items():
            if counters.get(k, 0) < floor:
                inconclusive.append(f"required monitor/anchor '{k}' observed {counters.get(k, 0)} < {floor}")

    known = [k for k in load_known() if k.get("property") == prop and k.get("status") == "known"]
    new_v, known_hit = [], []
    for mech, w in sorted(violations.items()):
        hit = next((k for k in known if k["mechanism"] == mech), None)
        if hit:
            known_hit.append((hit, w))
        else:
            new_v.append(w)

    rdir = VERIF / "evidence" / "replay" / prop
    lines = []
    for hit, w in known_hit:
        lines.append(f"KNOWN-FINDING: property={prop} {hit['what']}")
    for w in new_v:
        rdir.mkdir(parents=True, exist_ok=True)
        rp = rdir / (_slug(w["mechanism"]) + ".json")
        json.dump({"property": prop, "tier": tier, "seed": seed, **w,
                   "count": vcounts.get(w["mechanism"], 1)}, open(rp, "w"), indent=1)
        lines.append(f"VIOLATION property={prop} replay={rp}")
        lines.append(f"  mechanism: {w['mechanism']}  (x{vcounts.get(w['mechanism'], 1)})")
        lines.append("  " + w["message"].replace("\n", "\n  ")[:1200])

    wall = time.time() - t0
    cov = {
        "evaluations": ev, "distinct_nontrivial": len(sigs), "rule": m["rule"],
        "samples": samples[:3] if samples else [{"note": "no sample recorded"}],
        "cases_by_class": by_class, "monitor_counters": counters,
        "max_error_over_tolerance": {k: v for k, v in maxima.items()},
        "inconclusive_cases": len(inconclusive), "shards": nshards,
        "violation_mechanisms": {k: vcounts[k] for k in violations},
        "known_findings_reproduced": [h["mechanism"] for h, _ in known_hit],
    }
    if m.get("exhaustive"):
        cov["exhaustive"] = True
        cov["exhaustive_part"] = m["exhaustive"]
    cov.update(notes)
    evidence = {
        "property_id": prop, "tier": tier, "seed": seed, "level": "exploration",
        "coverage": jsonable(cov), "assumptions": m["assumptions"], "wall_s": round(wall, 2),
        "violations": len(new_v),
        "verdict": "violated" if new_v else ("inconclusive" if inconclusive else "held on what was observed"),
    }
    if inconclusive:
        evidence["inconclusive_reasons"] = inconclusive[:10]
    if not a.no_evidence and only is None:
        (VERIF / "evidence").mkdir(exist_ok=True)
        with open(VERIF / "evidence" / f"{prop}.json", "w") as fp:
            json.dump(evidence, fp, indent=1, allow_nan=False, default=str)
            fp.write("\n")

    for ln in lines:
        print(ln)
    summ = (f"{prop} tier={tier} seed={seed}: {ev} evaluations, {len(sigs)} distinct non-trivial, "
            f"{len(new_v)} violation mechanism(s), {len(known_hit)} known, {len(inconclusive)} inconclusive, {wall:.1f}s")
    print(summ)
    if maxima:
        print("  max error/tolerance: " + ", ".join(f"{k}={v:.3g}" for k, v in sorted(maxima.items())))
    if new_v:
        for r in inconclusive[:3]:
            print("  (also inconclusive) " + r[:500].replace("\n", "\n    "))
        return 1
    if inconclusive:
        for r in inconclusive[:5]:
            print(f"INCONCLUSIVE property={prop} reason={r}")
        return 2
    return 0


if __name__ == "__main__":
    sys.exit(main())
