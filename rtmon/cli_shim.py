"""Run the real `cij` command with a process-level audit hook that logs every file open.

usage: python -m rtmon.cli_shim <audit-log> <cij args...>
The hook only observes (path, mode); it never changes what the command does.
"""
import json
import os
import sys


def main():
    log_path, args = sys.argv[1], sys.argv[2:]
    events = []

    def hook(event, a):
        if event == "open":
            try:
                path, mode = a[0], a[1]
                if isinstance(path, (str, bytes, os.PathLike)):
                    events.append((os.path.abspath(os.fsdecode(path)), str(mode)))
            except Exception:
                pass
    sys.addaudithook(hook)
    sys.argv = ["cij"] + args
    code = 0
    try:
        from cij.cli.cij import main as cij_main
        cij_main()
    except SystemExit as exc:
        code = exc.code if isinstance(exc.code, int) else (0 if exc.code is None else 1)
    finally:
        with open(log_path, "w") as fp:
            json.dump(events, fp)
    sys.exit(code)


if __name__ == "__main__":
    main()
