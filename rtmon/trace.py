"""Anchor-reach counters and generic observation hooks.

``CallCounter`` uses sys.monitoring (PY_START) to count how often every
function defined under <repo>/cij is entered; code objects elsewhere are
switched off with DISABLE so the overhead stays local.  A check declares the
anchored functions it must have reached; zero calls => inconclusive.
"""
import os
import sys

from .runner import repo_dir


class CallCounter:
    TOOL = 3

    def __init__(self):
        self.counts = {}
        self.prefix = os.path.realpath(repo_dir()) + os.sep + "cij" + os.sep
        self._on = False

    def start(self):
        mon = sys.monitoring
        try:
            mon.use_tool_id(self.TOOL, "rtmon")
        except ValueError:
            pass
        mon.register_callback(self.TOOL, mon.events.PY_START, self._cb)
        mon.set_events(self.TOOL, mon.events.PY_START)
        self._on = True
        return self

    def stop(self):
        if self._on:
            mon = sys.monitoring
            mon.set_events(self.TOOL, 0)
            mon.register_callback(self.TOOL, mon.events.PY_START, None)
            mon.free_tool_id(self.TOOL)
            self._on = False

    def _cb(self, code, offset):
        fn = code.co_filename
        if not fn.startswith(self.prefix):
            # realpath only on first sight of a foreign-looking path
            if not os.path.realpath(fn).startswith(self.prefix):
                return sys.monitoring.DISABLE
        key = fn[len(self.prefix):] + ":" + code.co_qualname
        self.counts[key] = self.counts.get(key, 0) + 1

    def get(self, suffix):
        """Total calls of functions whose 'file:qualname' ends with ``suffix``."""
        return sum(v for k, v in self.counts.items() if k.endswith(suffix))

    def report(self, ctx, anchors, floor=1):
        """Push anchor counts into ctx counters and mark them required."""
        for a in anchors:
            ctx.count("anchor:" + a, self.get(a))
            ctx.require("anchor:" + a, floor)


def hook_lazy(cls, name, observer):
    """Attach ``observer(self, name, value)`` to a LazyProperty of ``cls`` without
    changing what it computes.  Returns an undo function."""
    desc = cls.__dict__[name]
    orig = desc.method

    def wrapped(self):
        value = orig(self)
        observer(self, name, value)
        return value
    wrapped.__name__ = getattr(orig, "__name__", name)
    wrapped.__doc__ = getattr(orig, "__doc__", None)
    desc.method = wrapped

    def undo():
        desc.method = orig
    return undo


def hook_method(owner, name, before=None, after=None):
    """Wrap ``owner.name`` (function on a class or module).  ``before(args, kwargs)``
    and ``after(args, kwargs, result, exc)`` only observe.  Returns undo."""
    orig = owner.__dict__[name] if isinstance(owner, type) else getattr(owner, name)
    is_static = isinstance(orig, staticmethod)
    is_class = isinstance(orig, classmethod)
    fn = orig.__func__ if (is_static or is_class) else orig

    def wrapped(*args, **kwargs):
        if before is not None:
            before(args, kwargs)
        try:
            result = fn(*args, **kwargs)
        except BaseException as exc:
            if after is not None:
                after(args, kwargs, None, exc)
            raise
        if after is not None:
            after(args, kwargs, result, None)
        return result
    wrapped.__name__ = getattr(fn, "__name__", name)
    wrapped.__wrapped__ = fn
    new = staticmethod(wrapped) if is_static else classmethod(wrapped) if is_class else wrapped
    setattr(owner, name, new)

    def undo():
        setattr(owner, name, orig)
    return undo
