"""Vibrational free energy F_ph(T,V) of a closed-form spectrum and its numerical
derivatives in x = ln V and in T (numpy.longdouble, 8th-order central stencils).

No Grueneisen algebra is used for the reference values: the spectrum is a
function omega_qm(V), F_ph is evaluated from it, and derivatives are taken
numerically.  (A second, cheaper reference built from (omega, gamma, dgamma)
arrays is provided for runs where no closed form is registered.)
"""
import numpy

from . import units as U

LD = numpy.longdouble
D1 = numpy.array([1 / 280, -4 / 105, 1 / 5, -4 / 5, 0, 4 / 5, -1 / 5, 4 / 105, -1 / 280], dtype=LD)
D2 = numpy.array([-1 / 560, 8 / 315, -1 / 5, 8 / 5, -205 / 72, 8 / 5, -1 / 5, 8 / 315, -1 / 560], dtype=LD)
OFFS = numpy.arange(-4, 5)


class Spectrum:
    """omega_qm(V) = w0 * exp(-g0 x - a x^2/2 - b x^3/6), x = ln(V/V0).

    gamma = g0 + a x + b x^2/2 ,  V dgamma/dV = a + b x.
    Gamma-point acoustic modes (q index 0, modes 0..2) are excluded by position.
    """

    def __init__(self, v0, w0, g0, a, b, weights, natoms, higher=()):
        """``higher`` = further derivatives d^k gamma/dx^k (k = 2, 3, ...) for spectra whose ln w is a
        polynomial of degree > 3 in x (used for least-squares fits of generic data)."""
        self.v0 = float(v0)
        self.w0, self.g0, self.a, self.b = (numpy.asarray(z, dtype=float) for z in (w0, g0, a, b))
        self.higher = [numpy.asarray(z, dtype=float) for z in higher]
        self.weights = numpy.asarray(weights, dtype=float)
        self.natoms = int(natoms)
        self.nq, self.np = self.w0.shape
        assert self.np == 3 * self.natoms
        self.mask = numpy.ones((self.nq, self.np), dtype=bool)
        self.mask[0, :3] = False

    def _coefs(self):
        # gamma(x) = sum_k c_k x^k / k!  with c_0 = g0, c_1 = a, c_2 = b, c_3.. = higher
        return [self.g0, self.a, self.b] + self.higher

    def omega(self, v, dtype=float):
        x = numpy.log(numpy.asarray(v, dtype=dtype) / dtype(self.v0))[..., None, None]
        expo = 0
        fact = 1
        for k, c in enumerate(self._coefs()):
            fact *= (k + 1)
            expo = expo - c.astype(dtype) * x ** (k + 1) / fact        # -int_0^x gamma
        return self.w0.astype(dtype) * numpy.exp(expo)

    def gamma(self, v):
        x = numpy.log(numpy.asarray(v, dtype=float) / self.v0)[..., None, None]
        out, fact = 0, 1
        for k, c in enumerate(self._coefs()):
            if k:
                fact *= k
            out = out + c * x ** k / fact
        return out

    def vdgdv(self, v):
        x = numpy.log(numpy.asarray(v, dtype=float) / self.v0)[..., None, None]
        out, fact = 0 * x, 1
        for k, c in enumerate(self._coefs()[1:]):
            if k:
                fact *= k
            out = out + c * x ** k / fact
        return out

    # ---- free energy -------------------------------------------------------------------
    def f_zp(self, v):
        """Zero-point free energy per cell in Ry at volumes v (any shape), longdouble."""
        w = self.omega(v, LD)
        e = LD(U.HC_CM_RY) * w / 2
        e = numpy.where(self.mask, e, LD(0))
        wq = (self.weights / self.weights.sum()).astype(LD)
        return (e.sum(axis=-1) * wq).sum(axis=-1)

    def f_th(self, t, v):
        """Thermal free energy k_B T sum ln(1-exp(-E/k_B T)); t and v broadcast; T=0 gives 0."""
        t = numpy.asarray(t, dtype=LD)
        v = numpy.asarray(v, dtype=LD)
        t, v = numpy.broadcast_arrays(t, v)
        w = self.omega(v, LD)
        tt = t[..., None, None]
        with numpy.errstate(divide="ignore", invalid="ignore", over="ignore"):
            q = LD(U.HC_OVER_K_CM) * w / tt
            term = numpy.log1p(-numpy.exp(-q))
        term = numpy.where(self.mask & (tt > 0), term, LD(0))
        wq = (self.weights / self.weights.sum()).astype(LD)
        return LD(U.KB_RY) * t * (term.sum(axis=-1) * wq).sum(axis=-1)

    # ---- numerical derivatives ------------------------------------------------------------
    def _xstencil(self, v, h):
        return numpy.asarray(v, dtype=LD)[..., None] * numpy.exp(LD(h) * OFFS.astype(LD))

    def zp_derivs(self, v, h=2e-3):
        """(F_x, F_xx) of the zero-point part at volumes v (x = ln V)."""
        f = self.f_zp(self._xstencil(v, h))
        return (f * D1).sum(-1) / LD(h), (f * D2).sum(-1) / LD(h) ** 2

    def th_derivs(self, t, v, h=2e-3):
        """(F_x, F_xx) of the thermal part on the grid t x v -> arrays (nt, nv)."""
        t = numpy.asarray(t, dtype=LD)
        vs = self._xstencil(v, h)                      # (nv, 9)
        f = self.f_th(t[:, None, None], vs[None, :, :])  # (nt, nv, 9)
        return (f * D1).sum(-1) / LD(h), (f * D2).sum(-1) / LD(h) ** 2

    def dpdt(self, t, v, h=2e-3, ht=1e-3):
        """(dP_ph/dT)_V = -d2F/dT dx / V on the grid; rows with T=0 return 0 (not needed there)."""
        t = numpy.asarray(t, dtype=LD)
        v = numpy.asarray(v, dtype=LD)
        vs = self._xstencil(v, h)                                    # (nv, 9)
        tpos = numpy.where(t > 0, t, LD(1))
        # relative step in T per row: F_th ~ exp(-Q) varies on the scale T/Q, so keep Q_min*ht small
        wmin = numpy.where(self.mask, self.omega(numpy.asarray(v, float)), numpy.inf).min()
        qmin = LD(U.HC_OVER_K_CM) * LD(wmin) / tpos
        hts = numpy.minimum(LD(ht), LD(0.05) / numpy.maximum(qmin, LD(1e-30)))   # (nt,)
        ts = tpos[:, None] * (1 + hts[:, None] * OFFS.astype(LD)[None, :])   # (nt, 9)
        f = self.f_th(ts[:, None, None, :], vs[None, :, :, None])     # (nt, nv, 9x, 9t)
        fx = (f * D1[None, None, :, None]).sum(2) / LD(h)             # (nt, nv, 9t)
        fxt = (fx * D1).sum(-1) / (hts * tpos)[:, None]
        out = -fxt / v[None, :]
        return numpy.where(t[:, None] > 0, out, LD(0))


def reference_nonshear(spec, t, v, ei, ej, longitudinal, p_total=None, p_static=None):
    """Expected zero-point, thermal and isothermal values from F_ph derivatives.

    c_ii = A/(5 e_i^2) + P/(3 e_i) ;  c_ij = A/(15 e_i e_j) [+ (P_total - P_static) added by the caller]
    with P = -F_x/V and A = V F'' - P = F_xx/V.
    """
    v = numpy.asarray(v, dtype=float)
    fx0, fxx0 = spec.zp_derivs(v)
    fx1, fxx1 = spec.th_derivs(t, v)
    vv = v.astype(LD)
    p0, a0 = -fx0 / vv, fxx0 / vv
    p1, a1 = -fx1 / vv[None, :], fxx1 / vv[None, :]
    ei = numpy.asarray(ei, dtype=LD)
    ej = numpy.asarray(ej, dtype=LD)
    if longitudinal:
        zp = a0 / (5 * ei * ei) + p0 / (3 * ei)
        th = a1 / (5 * ei * ei)[None, :] + p1 / (3 * ei)[None, :]
    else:
        zp = a0 / (15 * ei * ej)
        th = a1 / (15 * ei * ej)[None, :]
    return numpy.asarray(zp, dtype=float), numpy.asarray(th, dtype=float)


def scale_nonshear(spec, t, v, ei, ej, longitudinal):
    """Cancellation-aware magnitude (sum of absolute mode terms) of the zero-point
    and thermal parts; only used to scale tolerances."""
    v = numpy.asarray(v, dtype=float)
    t = numpy.asarray(t, dtype=float)
    w = spec.omega(v)
    g = numpy.abs(spec.gamma(v))
    dg = numpy.abs(spec.vdgdv(v))
    wq = spec.weights / spec.weights.sum()
    ei, ej = numpy.abs(numpy.asarray(ei, dtype=float)), numpy.abs(numpy.asarray(ej, dtype=float))     # magnitudes only: fractions may be negative (C02)
    pre = (5 if longitudinal else 15) * ei * ej
    m = spec.mask
    per_mode = (g ** 2 + dg) / pre[:, None, None] + (g / (3 * ei)[:, None, None] if longitudinal else 0)
    zp = U.HC_CM_RY / 2 / v * ((numpy.where(m, per_mode * w, 0)).sum(-1) * wq).sum(-1)
    with numpy.errstate(all="ignore"):
        q = U.HC_OVER_K_CM * w[None] / t[:, None, None, None]
        q1 = numpy.where(numpy.isfinite(q), q / numpy.expm1(q), 0.0)
        q2 = numpy.where(numpy.isfinite(q), q ** 2 * numpy.exp(-q) / numpy.expm1(-q) ** 2, 0.0)
    q1 = numpy.nan_to_num(q1)
    q2 = numpy.nan_to_num(q2)
    th_mode = (q1 + q2) * ((g ** 2 + dg) / pre[:, None, None])[None] + (q1 * (g / (3 * ei)[:, None, None])[None] if longitudinal else 0)
    th = U.KB_RY * t[:, None] / v[None, :] * ((numpy.where(m, th_mode, 0)).sum(-1) * wq).sum(-1)
    return zp, th


def closed_form_from_arrays(freq, gamma, vdgdv, weights, t, v, ei, ej, longitudinal):
    """Second reference: the closed-form sums re-derived from (omega, gamma, V dgamma/dV)
    arrays of shape (nv, nq, np) - used where no analytic spectrum is registered."""
    freq, gamma, vdgdv = (numpy.asarray(z, dtype=float) for z in (freq, gamma, vdgdv))
    v = numpy.asarray(v, dtype=float)
    t = numpy.asarray(t, dtype=float)
    mask = numpy.ones(freq.shape[1:], dtype=bool)
    mask[0, :3] = False
    wq = numpy.asarray(weights, dtype=float)
    wq = wq / wq.sum()

    def S(x):      # sum over modes and weighted q, Gamma acoustic excluded
        return (numpy.where(mask, x, 0.0).sum(-1) * wq).sum(-1)

    hw = U.HC_CM_RY * freq
    pzp = S(hw / 2 * gamma) / v
    azp = S(hw / 2 * (gamma ** 2 - vdgdv)) / v
    with numpy.errstate(all="ignore"):
        q = U.HC_OVER_K_CM * freq[None] / t[:, None, None, None]
        q1 = q / numpy.expm1(q)
        q2 = q ** 2 * numpy.exp(-q) / numpy.expm1(-q) ** 2
    q1 = numpy.where(numpy.isfinite(q1), q1, 0.0)
    q2 = numpy.where(numpy.isfinite(q2), q2, 0.0)
    kt_v = U.KB_RY * t[:, None] / v[None, :]
    pth = kt_v * S(q1 * gamma[None])
    ath = kt_v * S(gamma[None] ** 2 * (q1 - q2) - vdgdv[None] * q1)
    dsdx = U.KB_RY * S(q2 * gamma[None])          # dS/dx = V dP/dT
    pth[t == 0] = 0
    ath[t == 0] = 0
    dsdx[t == 0] = 0
    if longitudinal:
        zp = azp / (5 * ei * ei) + pzp / (3 * ei)
        th = ath / (5 * ei * ei)[None] + pth / (3 * ei)[None]
    else:
        zp = azp / (15 * ei * ej)
        th = ath / (15 * ei * ej)[None]
    return {"zp": zp, "th": th, "dsdx": dsdx, "p_zp": pzp, "p_th": pth}


def spectrum_from_lsq(volumes, freqs, order, weights, natoms, v0=None):
    """Oracle's own least-squares polynomial (degree ``order``) of ln w in x = ln(V/v0), per mode:
    the interpolant a least-squares method of that order must reproduce on arbitrary data."""
    from math import factorial
    volumes = numpy.asarray(volumes, float)
    freqs = numpy.asarray(freqs, float)
    nv, nq, np_ = freqs.shape
    v0 = float(volumes.max() if v0 is None else v0)
    x = numpy.log(volumes / v0)
    A = numpy.vander(x, order + 1, increasing=True)
    f = freqs.copy()
    f[:, 0, :3] = 1.0
    Y = numpy.log(f).reshape(nv, nq * np_)
    coef, *_ = numpy.linalg.lstsq(A, Y, rcond=None)           # ln w = sum_k coef_k x^k
    coef = coef.reshape(order + 1, nq, np_)
    full = numpy.zeros((max(order + 1, 4), nq, np_))
    full[:order + 1] = coef
    # ln w = ln w0 - sum_{k>=0} c_k x^(k+1)/(k+1)!   =>  c_k = -coef_{k+1} (k+1)!
    cs = [-full[k + 1] * factorial(k + 1) for k in range(full.shape[0] - 1)]
    while len(cs) < 3:
        cs.append(numpy.zeros((nq, np_)))
    return Spectrum(v0, numpy.exp(full[0]), cs[0], cs[1], cs[2], weights, natoms, higher=cs[3:])
