"""Reference phonon tensor: non-shear components from derivatives of F_ph, shear components by
the strain-energy rotation recipe on full index tuples, using the frames observed from the code
(the property leaves the choice of frame to the solver; degenerate fictitious strains such as
c14's do not have a unique frame).  Never imports cij."""
import itertools

import numpy

from . import fph
from . import tensor as T


class FrameProblem(Exception):
    pass


class PhononTensorOracle:
    def __init__(self, spec, t, v, p_total, p_static, cv, frames):
        self.spec, self.t, self.v = spec, numpy.asarray(t, float), numpy.asarray(v, float)
        self.dp = numpy.asarray(p_total, float) - numpy.asarray(p_static, float)[None, :]
        self.cv = numpy.asarray(cv, float)
        self.frames = frames
        (fx0, fxx0), (fx1, fxx1) = spec.zp_derivs(self.v), spec.th_derivs(self.t, self.v)
        vv = self.v.astype(fph.LD)
        self.p0, self.a0 = -fx0 / vv, fxx0 / vv
        self.p1, self.a1 = -fx1 / vv[None], fxx1 / vv[None]
        self.dpdt = numpy.asarray(spec.dpdt(self.t, self.v), float)
        self.memo = {}
        self.frames_used = 0

    def nonshear(self, a, b, e):
        f = e / e.sum(axis=1, keepdims=True)
        ei, ej = f[:, a - 1].astype(fph.LD), f[:, b - 1].astype(fph.LD)
        if a == b:
            zp = self.a0 / (5 * ei * ei) + self.p0 / (3 * ei)
            th = self.a1 / (5 * ei * ei)[None] + self.p1 / (3 * ei)[None]
            iso = numpy.asarray(zp[None] + th, float)
        else:
            zp = self.a0 / (15 * ei * ej)
            th = self.a1 / (15 * ei * ej)[None]
            iso = numpy.asarray(zp[None] + th, float) + self.dp
        with numpy.errstate(all="ignore"):
            gap = self.t[:, None] * self.v[None, :] * self.dpdt ** 2 / (9 * numpy.asarray(ei * ej, float))[None, :] / self.cv
        gap[self.t == 0] = 0
        return iso, iso + gap

    def find_frame(self, pair, e):
        for (p, s, Tm, D) in self.frames:
            if p == pair and s.shape == e.shape and numpy.allclose(s, e, rtol=1e-9, atol=1e-12):
                return numpy.real_if_close(Tm), numpy.real_if_close(D)
        raise FrameProblem(f"no observed frame for c{pair} with this strain")

    def value(self, pair, e):
        """(isothermal, adiabatic) arrays (nt, ntv) of component ``pair`` for raw axial strains e (ntv,3)."""
        key = (pair, e.tobytes())
        if key in self.memo:
            return self.memo[key]
        a, b = pair
        if a <= 3 and b <= 3:
            out = self.nonshear(a, b, e)
        else:
            out = self.shear(pair, e)
        self.memo[key] = out
        return out

    def shear(self, pair, e):
        a, b = pair
        E = numpy.zeros((3, 3))
        i, j = T.VOIGT_TO_PAIR[a]
        k, l = T.VOIGT_TO_PAIR[b]
        E[i - 1, j - 1] = E[j - 1, i - 1] = 1
        E[k - 1, l - 1] = E[l - 1, k - 1] = 1
        Tm, D = self.find_frame(pair, e)
        if numpy.iscomplexobj(Tm) or numpy.abs(Tm.T @ Tm - numpy.eye(3)).max() > 1e-10 or numpy.abs(Tm.T @ E @ Tm - D).max() > 1e-10 \
                or numpy.abs(D - numpy.diag(numpy.diag(D))).max() > 1e-10:
            raise FrameProblem(f"observed frame of c{pair} is not an orthogonal diagonalising frame")
        self.frames_used += 1
        er = numpy.einsum("ia,ni->na", Tm ** 2, e)
        e_rot = 0.0
        d = numpy.diag(D)
        for p in range(3):
            for q in range(3):
                if abs(d[p]) < 1e-8 or abs(d[q]) < 1e-8:
                    continue
                iso, _ = self.value(T.canon(p + 1, p + 1, q + 1, q + 1), er)
                e_rot = e_rot + iso * d[p] * d[q] / 2
        e_known = 0.0
        nz = [(p, q) for p in range(3) for q in range(3) if E[p, q] != 0]
        for (p, q), (r, s) in itertools.product(nz, nz):
            c = T.canon(p + 1, q + 1, r + 1, s + 1)
            if c == pair:
                continue
            iso, _ = self.value(c, e)
            e_known = e_known + iso * E[p, q] * E[r, s] / 2
        val = 2 * (e_rot - e_known) / (E[i - 1, j - 1] * E[k - 1, l - 1]) / T.multiplicity(a, b)
        return val, val


def fit_eulerian_cubic(volumes, values, v_eval, times_v=True):
    """Least-squares cubic in Eulerian strain f = ((V0/V)^(2/3)-1)/2 (V0 = first tabulated volume)
    of V*c(V) (or of c(V) itself), evaluated at v_eval."""
    volumes, values, v_eval = (numpy.asarray(z, float) for z in (volumes, values, v_eval))
    v0 = volumes[0]
    f = ((v0 / volumes) ** (2.0 / 3.0) - 1) / 2
    fe = ((v0 / v_eval) ** (2.0 / 3.0) - 1) / 2
    y = volumes * values if times_v else values
    A = numpy.vander(f, 4, increasing=True)
    coef, *_ = numpy.linalg.lstsq(A, y, rcond=None)
    out = numpy.vander(fe, 4, increasing=True) @ coef
    return out / v_eval if times_v else out


def fit_eulerian_poly(volumes, values, v_eval, order):
    """Least-squares polynomial of the given order in Eulerian strain (reference volume = first tabulated one),
    row-wise for a 2-d ``values`` (n_rows, n_volumes), evaluated at v_eval."""
    volumes, values, v_eval = (numpy.asarray(z, float) for z in (volumes, values, v_eval))
    v0 = volumes[0]
    f = ((v0 / volumes) ** (2.0 / 3.0) - 1) / 2
    fe = ((v0 / v_eval) ** (2.0 / 3.0) - 1) / 2
    A = numpy.vander(f, int(order) + 1, increasing=True)
    coef, *_ = numpy.linalg.lstsq(A, values.T, rcond=None)
    return (numpy.vander(fe, int(order) + 1, increasing=True) @ coef).T


def vibrational_free_energy(freqs, weights, t):
    """F_vib(T, V_i) in Ry per cell from tabulated frequencies (n_volumes, nq, modes) in cm^-1: sum over q (normalised
    weights) and over the modes with positive frequency of  hbar w / 2 + k_B T ln(1 - exp(-hbar w / k_B T)).  -> (nt, n_volumes)"""
    from . import units as U
    LD = numpy.longdouble
    w = numpy.asarray(freqs, dtype=LD)
    pos = w > 0
    wq = numpy.asarray(weights, dtype=LD)
    wq = wq / wq.sum()
    e = LD(U.HC_CM_RY) * numpy.where(pos, w, LD(0))
    out = []
    for tt in numpy.asarray(t, dtype=LD):
        term = e / 2
        if tt > 0:
            with numpy.errstate(all="ignore"):
                q = LD(U.HC_OVER_K_CM) * numpy.where(pos, w, LD(1)) / tt
                term = term + numpy.where(pos, LD(U.KB_RY) * tt * numpy.log1p(-numpy.exp(-q)), LD(0))
        out.append((term.sum(axis=-1) * wq[None, :]).sum(axis=-1))
    return numpy.asarray(out, dtype=float)


def fit_eulerian_cubic_dlnf_dlnv(volumes, values, v_eval):
    """d ln c_fit / d ln V, analytic, of the fit above with times_v=True."""
    volumes, values, v_eval = (numpy.asarray(z, float) for z in (volumes, values, v_eval))
    v0 = volumes[0]
    f = ((v0 / volumes) ** (2.0 / 3.0) - 1) / 2
    fe = ((v0 / v_eval) ** (2.0 / 3.0) - 1) / 2
    A = numpy.vander(f, 4, increasing=True)
    coef, *_ = numpy.linalg.lstsq(A, volumes * values, rcond=None)
    g = numpy.vander(fe, 4, increasing=True) @ coef                    # V*c
    dg_df = coef[1] + 2 * coef[2] * fe + 3 * coef[3] * fe ** 2
    df_dlnv = -(1.0 / 3.0) * (v0 / v_eval) ** (2.0 / 3.0)
    return dg_df * df_dlnv / g - 1.0                                   # d ln(g/V)/d ln V


def discrete_pressure(energy_on_grid, v_grid):
    """-dE/dV with the discrete operator the QHA layer applies to F(T,V): second-order central
    differences in the grid index (ratio of index-differences), one-sided at both ends."""
    e, v = numpy.asarray(energy_on_grid, float), numpy.asarray(v_grid, float)

    def idx_grad(x):
        g = numpy.empty_like(x)
        g[1:-1] = (x[2:] - x[:-2]) / 2
        g[0] = x[1] - x[0]
        g[-1] = x[-1] - x[-2]
        return g
    return -idx_grad(e) / idx_grad(v)
