"""Unit factors straight from CODATA values in scipy.constants (no pint, no cij, no qha)."""
from scipy.constants import physical_constants as pc

H = pc["Planck constant"][0]                      # J s
C = pc["speed of light in vacuum"][0]             # m/s
KB = pc["Boltzmann constant"][0]                  # J/K
NA = pc["Avogadro constant"][0]
RY_J = pc["Rydberg constant times hc in J"][0]    # J
RY_EV = pc["Rydberg constant times hc in eV"][0]  # eV
BOHR = pc["Bohr radius"][0]                       # m

HC_CM_RY = H * C * 100.0 / RY_J      # energy in Ry of a 1 cm^-1 quantum
KB_RY = KB / RY_J                    # k_B in Ry/K
HC_OVER_K_CM = H * C * 100.0 / KB    # K per cm^-1  (Q = HC_OVER_K_CM * w / T)

GPA_PER_AU = RY_J / BOHR ** 3 / 1e9  # GPa per (Ry/bohr^3)
ANG3_PER_BOHR3 = (BOHR * 1e10) ** 3


def gpa_to_au(x):
    return x / GPA_PER_AU


def au_to_gpa(x):
    return x * GPA_PER_AU


def bohr3_to_ang3(x):
    return x * ANG3_PER_BOHR3


def ang3_to_bohr3(x):
    return x / ANG3_PER_BOHR3


def ry_to_ev(x):
    return x * RY_EV


def density_gcm3(mass_g_mol, v_bohr3):
    """rho = m / (N_A V) in g/cm^3."""
    return mass_g_mol / NA / (v_bohr3 * (BOHR * 100.0) ** 3)


def velocity_kms(modulus_au, mass_g_mol, v_bohr3):
    """sqrt(M/rho) in km/s for a modulus in Ry/bohr^3."""
    import numpy
    rho = mass_g_mol * 1e-3 / NA / (v_bohr3 * BOHR ** 3)     # kg/m^3
    return numpy.sqrt(modulus_au * RY_J / BOHR ** 3 / rho) / 1e3
