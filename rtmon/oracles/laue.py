"""Laue-class invariant subspaces of symmetric rank-4 tensors, exact (sympy).

Standard setting: principal axis z, two-fold axis x where present, unique
axis y for monoclinic.  Inversion acts trivially on even-rank tensors, so the
proper rotations generating each Laue class suffice.
"""
import functools
import itertools

import numpy
import sympy
from sympy import Rational as R, sqrt, Matrix, eye

from . import tensor as T


def rot_z(n):
    if n == 2:
        c, s = -1, 0
    elif n == 4:
        c, s = 0, 1
    elif n == 3:
        c, s = R(-1, 2), sqrt(3) / 2
    elif n == 6:
        c, s = R(1, 2), sqrt(3) / 2
    return Matrix([[c, -s, 0], [s, c, 0], [0, 0, 1]])


ROT_2X = Matrix([[1, 0, 0], [0, -1, 0], [0, 0, -1]])
ROT_2Y = Matrix([[-1, 0, 0], [0, 1, 0], [0, 0, -1]])
ROT_2Z = rot_z(2)
ROT_3_111 = Matrix([[0, 0, 1], [1, 0, 0], [0, 1, 0]])

GENERATORS = {
    "triclinic": [],
    "monoclinic": [ROT_2Y],
    "orthorhombic": [ROT_2X, ROT_2Y, ROT_2Z],
    "tetragonal7": [rot_z(4)],
    "tetragonal6": [rot_z(4), ROT_2X],
    "trigonal7": [rot_z(3)],
    "trigonal6": [rot_z(3), ROT_2X],
    "hexagonal": [rot_z(6), ROT_2X],
    "cubic": [ROT_2X, ROT_2Y, ROT_2Z, ROT_3_111, rot_z(4)],
}
EXPECTED_DIM = {"triclinic": 21, "monoclinic": 13, "orthorhombic": 9, "tetragonal7": 7, "tetragonal6": 6,
                "trigonal7": 7, "trigonal6": 6, "hexagonal": 5, "cubic": 3}
SYSTEMS = list(GENERATORS)


def action_matrix(Rm):
    """21x21 exact matrix of C -> C' with C'_abcd = R_ai R_bj R_ck R_dl C_ijkl,
    in the coordinates x[n] = C at Voigt pair VOIGT21[n]."""
    idx = {p: n for n, p in enumerate(T.VOIGT21)}
    M = sympy.zeros(21, 21)
    for n, (va, vb) in enumerate(T.VOIGT21):
        a, b = T.VOIGT_TO_PAIR[va]
        c, d = T.VOIGT_TO_PAIR[vb]
        for i, j, k, l in itertools.product(range(1, 4), repeat=4):
            coef = Rm[a - 1, i - 1] * Rm[b - 1, j - 1] * Rm[c - 1, k - 1] * Rm[d - 1, l - 1]
            if coef != 0:
                M[n, idx[T.canon(i, j, k, l)]] += coef
    return M.applyfunc(sympy.nsimplify)


@functools.lru_cache(maxsize=None)
def constraint_matrix(system):
    """Exact matrix whose null space is the invariant subspace."""
    rows = [action_matrix(g) - eye(21) for g in GENERATORS[system]]
    if not rows:
        return sympy.zeros(0, 21)
    return Matrix.vstack(*rows)


@functools.lru_cache(maxsize=None)
def invariant_basis_exact(system):
    A = constraint_matrix(system)
    if A.rows == 0:
        return [sympy.eye(21)[:, i] for i in range(21)]
    return A.nullspace()


@functools.lru_cache(maxsize=None)
def invariant_basis(system):
    """float (21, dim) basis; columns are the exact null-space vectors."""
    ns = invariant_basis_exact(system)
    B = numpy.array([[float(v) for v in vec] for vec in ns]).T
    assert B.shape == (21, EXPECTED_DIM[system]), (system, B.shape)
    return B


def same_nullspace(A1, A2):
    """Exact: null(A1) == null(A2)  <=>  rowspace equal."""
    r1 = A1.rank() if A1.rows else 0
    r2 = A2.rank() if A2.rows else 0
    if A1.rows and A2.rows:
        r12 = Matrix.vstack(A1, A2).rank()
    else:
        r12 = max(r1, r2)
    return r1 == r2 == r12, (r1, r2, r12)


def sufficient(system, supplied_idx):
    """Do the supplied coordinates determine a tensor of the invariant subspace?"""
    B = invariant_basis(system)
    if len(supplied_idx) == 0:
        return False
    sub = B[sorted(supplied_idx), :]
    return numpy.linalg.matrix_rank(sub, tol=1e-9) == B.shape[1]


def project(system, x21):
    """Orthogonal projection onto the invariant subspace (for consistency checks)."""
    B = invariant_basis(system)
    coef, *_ = numpy.linalg.lstsq(B, x21, rcond=None)
    return B @ coef
