"""Own readers and writers for the file formats (never imports cij or qha).

input01 : QHA phonon data (title lines, counts line, per-volume blocks, weights)
input02 : static elasticity table (title, 'vref nv mass', header, rows, optional lattice block)
output  : T x P / T x V tables as written by the calculator
"""
import re

import numpy


# ----------------------------------------------------------------------------- input01
def write_input01(path, volumes, energies, freqs, qcoords, weights, nm=1, na=None, pressures=None,
                  title=("Synthetic data set", "written by the verification oracle"), float_fmt="%.10f", blank_between=True):
    """freqs[v][q][m] in cm^-1; volumes in bohr^3 (listed in the order given); energies in Ry."""
    freqs = numpy.asarray(freqs, dtype=float)
    nv, nq, np_ = freqs.shape
    na = na if na is not None else np_ // 3
    pressures = pressures if pressures is not None else numpy.zeros(nv)
    lines = list(title)
    lines.append(" Number of volumes (nv), q-vectors (nq), normal modes (np),formula units(nm),numbers of atom(na):")
    lines.append("   %d   %d   %d   %d   %d" % (nv, nq, np_, nm, na))
    lines.append("")
    for i in range(nv):
        lines.append((" P=    " + float_fmt + "      V=     " + float_fmt + "      E=    " + float_fmt) % (pressures[i], volumes[i], energies[i]))
        for j in range(nq):
            lines.append("   " + "   ".join(float_fmt % c for c in qcoords[j]))
            for k in range(np_):
                lines.append("   " + float_fmt % freqs[i, j, k])
        if blank_between:
            lines.append("")
    lines.append("weight")
    for j in range(nq):
        # weights with full precision: a common scale factor must re-present *the same* relative weights
        # (a fixed number of decimals would round small scaled weights differently)
        lines.append("   " + "   ".join(float_fmt % c for c in qcoords[j]) + "   " + repr(float(weights[j])))
    with open(path, "w") as fp:
        fp.write("\n".join(lines) + "\n")


def read_input01(path):
    """Independent parser of the phonon data format -> dict."""
    with open(path) as fp:
        lines = [ln.rstrip("\n") for ln in fp]
    it = iter(range(len(lines)))
    counts = None
    for i in it:
        w = lines[i].split()
        if len(w) == 5 and all(re.fullmatch(r"\d+", x) for x in w):
            counts = tuple(int(x) for x in w)
            break
    nv, nq, np_, nm, na = counts
    pos = i + 1
    vols = []
    for _ in range(nv):
        while lines[pos].strip() == "":
            pos += 1
        m = re.findall(r"=\s*(\S+)", lines[pos])
        p, v, e = (float(x) for x in m[:3])
        pos += 1
        qps = []
        for _ in range(nq):
            coord = tuple(float(x) for x in lines[pos].split())
            pos += 1
            modes = [float(lines[pos + k]) for k in range(np_)]
            pos += np_
            qps.append((coord, modes))
        vols.append((p, v, e, qps))
    while lines[pos].strip() not in ("weight", "weights"):
        pos += 1
    pos += 1
    weights = []
    for _ in range(nq):
        w = lines[pos].split()
        weights.append((tuple(float(x) for x in w[:3]), float(w[3])))
        pos += 1
    return {"counts": counts, "volumes": vols, "weights": weights}


# ----------------------------------------------------------------------------- input02
def write_input02(path, vref, cellmass, volumes, columns, lattice=None, title="static elasticity table (oracle)",
                  fmt="%r", header_v="V", lattice_header=" lattice_a lattice_b lattice_c "):
    """columns: list of (spelling, values[nv]); lattice: array (nv, 3) or None."""
    nv = len(volumes)
    lines = [title, "%s %d %s" % (fmt % float(vref), nv, fmt % float(cellmass))]
    lines.append(" ".join([header_v] + [c[0] for c in columns]))
    for i in range(nv):
        lines.append(" ".join([fmt % float(volumes[i])] + [fmt % float(c[1][i]) for c in columns]))
    if lattice is not None:
        lines.append(lattice_header)
        for i in range(nv):
            lines.append("   ".join(fmt % float(x) for x in lattice[i]))
    with open(path, "w") as fp:
        fp.write("\n".join(lines) + "\n")
    return "\n".join(lines) + "\n"


def spelling_to_pair(name):
    """Canonical Voigt pair (a<=b) of a column spelling like c11, C_12, c1122, 1323."""
    from . import tensor as T
    m = re.search(r"(\d+)$", name)
    if not m:
        return None
    d = m.group(1)
    if len(d) == 2:
        a, b = int(d[0]), int(d[1])
        return (a, b) if a <= b else (b, a)
    if len(d) == 4:
        return T.canon(*(int(x) for x in d))
    return None


def read_input02_text(text):
    """Independent parser of a static table given as text."""
    lines = text.splitlines()
    title = lines[0]
    f = lines[1].split()
    vref, nv, mass = float(f[0]), int(f[1]), float(f[2])
    header = lines[2].split()
    rows = [[float(x) for x in lines[3 + i].split()] for i in range(nv)]
    volumes = [r[0] for r in rows]
    comps = {}
    for c, name in enumerate(header[1:], start=1):
        comps[spelling_to_pair(name)] = [r[c] for r in rows]
    rest = lines[3 + nv:]
    lattice = None
    if rest and rest[0].strip() != "":
        lattice = [[float(x) for x in rest[1 + i].split()] for i in range(nv)]
    return {"title": title, "vref": vref, "nv": nv, "mass": mass, "header": header, "volumes": volumes, "components": comps,
            "lattice": lattice, "rest_text": "\n".join(rest)}


# ----------------------------------------------------------------------------- output tables
def read_table(path):
    """Tables written by save_x_tp / save_x_tv: first line = corner label + column labels,
    then one line per row label.  Returns (corner, col_labels[float], row_labels[float], values[rows, cols])."""
    with open(path) as fp:
        lines = [ln for ln in fp.read().splitlines() if ln.strip() != ""]
    head = lines[0].split()
    corner, cols = head[0], [float(x) for x in head[1:]]
    rows, vals = [], []
    for ln in lines[1:]:
        w = ln.split()
        rows.append(float(w[0]))
        vals.append([float(x) for x in w[1:]])
    return corner, numpy.array(cols), numpy.array(rows), numpy.array(vals)


def write_table(path, corner, col_labels, row_labels, values, fmt="%.15e"):
    """Write a table in the calculator's output layout (used to feed extract / extract-geotherm)."""
    import io
    colw = 25
    out = io.StringIO()
    out.write(corner.ljust(12) + "".join(("%s" % repr(float(c))).rjust(colw) for c in col_labels) + "\n")
    for r, row in zip(row_labels, values):
        out.write(("%s" % repr(float(r))).ljust(12) + "".join((fmt % v).rjust(colw) for v in row) + "\n")
    with open(path, "w") as fp:
        fp.write(out.getvalue())
