"""Monitors attached to the real phonon-contribution classes.

They observe every contribution object at the moment its cached value is
computed (LazyProperty hooks) and compare it with the reference models in
rtmon.oracles.  The same monitors serve the duck-typed workloads (C01, C02,
C04) and the end-to-end runs (C05, C12): whatever creates the objects, each
one is judged.
"""
import numpy

from .oracles import fph
from .oracles import units as U
from .trace import hook_lazy, hook_method

TOL = 1e-6          # x cancellation-aware scale (first reference, numerical derivatives of F_ph)
TOL2 = 1e-7         # second reference (closed form from the arrays the object itself was given); 50x the pint-vs-scipy CODATA difference (2e-9)


def _weights(calc):
    return numpy.array([w for _, w in calc.qha_input.weights], dtype=float)


def _strains_given(obj):
    """The strain fractions the object was constructed with, as the harness recorded them (``_oracle_e``); the object's own
    attribute only where the harness did not construct it (objects made by the scheduler, judged end to end elsewhere)."""
    return getattr(obj, "_oracle_e", None) or obj.e


def _abs_scale_from_arrays(calc, t, v, ei, ej, longitudinal):
    """sum of absolute mode terms from the arrays (tolerance scale only)."""
    ei, ej = numpy.abs(numpy.asarray(ei, dtype=float)), numpy.abs(numpy.asarray(ej, dtype=float))     # magnitudes: a negative fraction must not cancel terms
    freq = numpy.abs(numpy.asarray(calc.freq_array, dtype=float))
    g = numpy.abs(numpy.asarray(calc.mode_gamma[1], dtype=float))
    dg = numpy.abs(numpy.asarray(calc.mode_gamma[0], dtype=float))
    r = fph.closed_form_from_arrays(freq, g, -dg, _weights(calc), t, v, ei, ej, longitudinal)
    # with gamma>=0 and vdgdv<=0 every term of A and P is non-negative, except the (q1-q2) factor:
    with numpy.errstate(all="ignore"):
        q = U.HC_OVER_K_CM * freq[None] / numpy.asarray(t, dtype=float)[:, None, None, None]
        q1 = numpy.nan_to_num(q / numpy.expm1(q), posinf=0, neginf=0)
        q2 = numpy.nan_to_num(q ** 2 * numpy.exp(-q) / numpy.expm1(-q) ** 2, posinf=0, neginf=0)
    mask = numpy.ones(freq.shape[1:], dtype=bool)
    mask[0, :3] = False
    wq = _weights(calc)
    wq = wq / wq.sum()
    pre = (5 if longitudinal else 15) * ei * ej
    term = (q1 + q2) * ((g ** 2 + dg) / pre[:, None, None])[None]
    if longitudinal:
        term = term + q1 * (g / (3 * ei)[:, None, None])[None]
    th = U.KB_RY * numpy.asarray(t, dtype=float)[:, None] / numpy.asarray(v, dtype=float)[None, :] * \
        ((numpy.where(mask, term, 0)).sum(-1) * wq).sum(-1)
    th[numpy.asarray(t) == 0] = 0
    return numpy.abs(r["zp"]), numpy.abs(th)


class NonShearMonitor:
    """Judges zero_point_contribution / thermal_contribution / value_isothermal /
    isothermal_to_adiabatic / value_adiabatic of both non-shear classes."""

    def __init__(self, ctx, case_id_fn=lambda: None, judge_gap=True):
        self.ctx = ctx
        self.case_id_fn = case_id_fn
        self.judge_gap = judge_gap
        self.undo = []
        self.objects_judged = 0
        self.default_spectrum = None      # set by the end-to-end harness while a real Calculator is being built

    def _spectrum(self, calc):
        sp = getattr(calc, "_oracle_spectrum", None)
        return sp if sp is not None else self.default_spectrum

    def attach(self):
        import cij.core.phonon_contribution.nonshear as ns
        self.ns = ns
        L, O = ns.LongitudinalElasticModulusPhononContribution, ns.OffDiagonalElasticModulusPhononContribution
        self.L, self.O = L, O
        self.undo.append(hook_lazy(L, "value_isothermal", self.on_isothermal))
        self.undo.append(hook_lazy(O, "value_isothermal", self.on_isothermal))
        self.undo.append(hook_lazy(L, "isothermal_to_adiabatic", self.on_gap))
        orig_prop = L.__dict__["value_adiabatic"]

        mon = self

        def value_adiabatic(self_):
            val = orig_prop.fget(self_)
            mon.on_adiabatic(self_, val)
            return val
        L.value_adiabatic = property(value_adiabatic)
        self.undo.append(lambda: setattr(L, "value_adiabatic", orig_prop))
        return self

    def detach(self):
        for u in reversed(self.undo):
            u()
        self.undo = []

    # ------------------------------------------------------------------------------------
    def _kind(self, obj):
        return "offdiag" if isinstance(obj, self.O) else "longitudinal"

    def _ref(self, obj):
        """(zp_ref, th_ref, zp_scale, th_scale, source) for this object."""
        calc = obj.calculator
        t = numpy.asarray(calc.t_array, dtype=float)
        v = numpy.asarray(calc.v_array, dtype=float)
        ei, ej = (numpy.asarray(x, dtype=float) for x in _strains_given(obj))
        longi = self._kind(obj) == "longitudinal"
        spec = self._spectrum(calc)
        out = {}
        if spec is not None:
            cache = calc.__dict__.setdefault("_oracle_cache", {})
            if "d" not in cache:
                cache["d"] = (spec.zp_derivs(v), spec.th_derivs(t, v))
            (fx0, fxx0), (fx1, fxx1) = cache["d"]
            vv = v.astype(fph.LD)
            p0, a0, p1, a1 = -fx0 / vv, fxx0 / vv, -fx1 / vv[None], fxx1 / vv[None]
            if longi:
                zp = a0 / (5 * ei * ei) + p0 / (3 * ei)
                th = a1 / (5 * ei * ei)[None] + p1 / (3 * ei)[None]
            else:
                zp = a0 / (15 * ei * ej)
                th = a1 / (15 * ei * ej)[None]
            szp, sth = fph.scale_nonshear(spec, t, v, ei, ej, longi)
            # error budget for the arrays the object was given (interpolated modes in end-to-end runs; exact closed
            # forms in the duck-typed workloads): d ln w is amplified by Q in the Bose factors
            if "budget" not in cache:
                m = spec.mask
                with numpy.errstate(all="ignore"):
                    dfw = numpy.abs(numpy.log(numpy.asarray(calc.freq_array, float)[:, m]) - numpy.log(spec.omega(v)[:, m])).max() if m.any() else 0.0
                dg = numpy.abs(numpy.asarray(calc.mode_gamma[1], float)[:, m] - spec.gamma(v)[:, m]).max() if m.any() else 0.0
                dd = numpy.abs(numpy.asarray(calc.mode_gamma[0], float)[:, m] - spec.vdgdv(v)[:, m]).max() if m.any() else 0.0
                wmin = spec.omega(v)[:, m].min() if m.any() else 0.0
                g2 = max(0.05, float((spec.gamma(v)[:, m] ** 2).mean())) if m.any() else 1.0
                with numpy.errstate(all="ignore"):
                    qmin = numpy.where(t > 0, U.HC_OVER_K_CM * wmin / numpy.where(t > 0, t, 1.0), 0.0)
                if not numpy.isfinite(dfw):
                    dfw = 1.0
                base = 5 * ((5 * dg + dd) / g2)
                cache["budget"] = (TOL + 5 * dfw + base, (TOL + 5 * dfw * (1 + qmin) + base)[:, None], (dfw, dg, dd))
                self.ctx.maxi("interpolation_budget_dlnw", dfw)
            tolz, tolt, _ = cache["budget"]
            out["F"] = (numpy.asarray(zp, float), numpy.asarray(th, float), szp, sth, (tolz, tolt))
        r = fph.closed_form_from_arrays(calc.freq_array, calc.mode_gamma[1], calc.mode_gamma[0], _weights(calc), t, v, ei, ej, longi)
        szp2, sth2 = _abs_scale_from_arrays(calc, t, v, ei, ej, longi)
        out["arrays"] = (r["zp"], r["th"], szp2, sth2, TOL2)
        return out, r

    def on_isothermal(self, obj, name, value):
        ctx = self.ctx
        kind = self._kind(obj)
        cid = self.case_id_fn()
        calc = obj.calculator
        t = numpy.asarray(calc.t_array, dtype=float)
        try:
            zp = numpy.asarray(obj.zero_point_contribution)
            th = numpy.asarray(obj.thermal_contribution)
            val = numpy.asarray(value)
            refs, r = self._ref(obj)
        except Exception as exc:
            ctx.harness_error("NonShearMonitor.on_isothermal", exc)
            return
        self.objects_judged += 1
        ctx.count("monitor:nonshear_isothermal_objects")
        nt, ntv = len(t), len(calc.v_array)
        if zp.shape != (ntv,) or th.shape != (nt, ntv) or val.shape != (nt, ntv):
            ctx.violation(f"{kind}:shape", f"shapes zp {zp.shape} th {th.shape} value {val.shape}, grid ({nt},{ntv})", cid)
            return
        for arr, nm in ((zp, "zero_point"), (th, "thermal"), (val, "isothermal")):
            if numpy.iscomplexobj(arr):
                ctx.violation(f"{kind}:{nm}:complex", f"{nm} is complex ({arr.dtype})", cid)
                return
            if not numpy.all(numpy.isfinite(arr)):
                bad = numpy.argwhere(~numpy.isfinite(arr))[0]
                trow = t[bad[0]] if arr.ndim == 2 else None
                cls = "T=0" if trow == 0 else ("lowT" if trow is not None and trow < 20 else "other")
                ctx.violation(f"{kind}:{nm}:non-finite:{cls}", f"{nm} has a non-finite value at index {bad.tolist()} (T={trow})", cid)
                return
        # T = 0 rows: thermal part exactly zero
        z = t == 0
        if z.any() and numpy.any(th[z] != 0):
            ctx.violation(f"{kind}:thermal:nonzero-at-T0", f"thermal part at T=0 is {th[z].ravel()[:3]}", cid)
        for src, (zr, tr, szp, sth, tol) in refs.items():
            tolz, tolt = tol if isinstance(tol, tuple) else (tol, tol)
            ez = numpy.abs(zp - zr) / (szp + 1e-300) / tolz
            et = numpy.abs(th - tr) / (sth + szp[None] * 1e-9 + 1e-300) / tolt
            ctx.maxi(f"{kind}_zp_err/tol[{src}]", ez.max())
            ctx.maxi(f"{kind}_th_err/tol[{src}]", et.max())
            tol = 1.0
            if not (ez.max() <= tol):
                i = int(numpy.argmax(ez))
                ratio = zp[i] / zr[i] if zr[i] != 0 else float("nan")
                ctx.violation(f"{kind}:zero_point:mismatch[{src}]",
                              f"zero-point {kind} value {zp[i]!r} vs reference {zr[i]!r} (ratio {ratio:.6g}) at V index {i}; err/scale {ez.max():.3g}", cid)
            if not (et.max() <= tol):
                i = numpy.unravel_index(int(numpy.argmax(et)), et.shape)
                ratio = th[i] / tr[i] if tr[i] != 0 else float("nan")
                ctx.violation(f"{kind}:thermal:mismatch[{src}]",
                              f"thermal {kind} value {th[i]!r} vs reference {tr[i]!r} (ratio {ratio:.6g}) at (T={t[i[0]]}, V index {i[1]}); err/scale {et.max():.3g}", cid)
        # the isothermal value is the sum (plus exactly the supplied pressure difference for off-diagonal terms)
        rest = val - zp[None, :] - th
        if kind == "offdiag":
            want = numpy.asarray(calc.qha_calculator.volume_base.pressures) - numpy.asarray(calc.static_p_array)[None, :]
        else:
            want = numpy.zeros_like(val)
        mag = numpy.abs(val) + numpy.abs(zp)[None] + numpy.abs(th) + numpy.abs(want) + 1e-300
        e = numpy.abs(rest - want) / mag
        ctx.maxi(f"{kind}_pressure_term_err/tol", e.max() / 1e-12)
        if not (e.max() <= 1e-12):
            i = numpy.unravel_index(int(numpy.argmax(e)), e.shape)
            ctx.violation(f"{kind}:pressure-term", f"value - zero_point - thermal = {rest[i]!r}, expected "
                          f"{'P_total - P_static' if kind == 'offdiag' else '0'} = {want[i]!r}", cid)

    # ------------------------------------------------------------------------------------
    def gap_reference(self, obj):
        calc = obj.calculator
        t = numpy.asarray(calc.t_array, dtype=float)
        v = numpy.asarray(calc.v_array, dtype=float)
        ei, ej = (numpy.asarray(x, dtype=float) for x in _strains_given(obj))
        cv = numpy.asarray(calc.qha_calculator.volume_base.heat_capacity, dtype=float)
        out = {}
        spec = self._spectrum(calc)
        if spec is not None:
            cache = calc.__dict__.setdefault("_oracle_cache", {})
            if "dpdt" not in cache:
                cache["dpdt"] = numpy.asarray(spec.dpdt(t, v), dtype=float)
            dpdt = cache["dpdt"]
            if "budget" not in cache:
                self._ref(obj)
            tolt = cache["budget"][1]
            with numpy.errstate(all="ignore"):
                out["F"] = (t[:, None] * v[None, :] * dpdt ** 2 / (9 * ei * ej)[None, :] / cv, 2 * tolt)
        r = fph.closed_form_from_arrays(calc.freq_array, calc.mode_gamma[1], calc.mode_gamma[0], _weights(calc), t, v, ei, ej, True)
        with numpy.errstate(all="ignore"):
            out["arrays"] = (t[:, None] / v[None, :] * r["dsdx"] ** 2 / (9 * ei * ej)[None, :] / cv, TOL2)
        # classical (all Bose factors -> 1) magnitude of the gap: floor for the comparison scale, because at low T
        # the gap is ~exp(-2Q) and is then hypersensitive to the last digits of hbar/k_B (pint vs scipy CODATA)
        g = numpy.abs(numpy.asarray(calc.mode_gamma[1], dtype=float))
        mask = numpy.ones(g.shape[1:], dtype=bool)
        mask[0, :3] = False
        wq = _weights(calc)
        wq = wq / wq.sum()
        sg = U.KB_RY * (numpy.where(mask, g, 0).sum(-1) * wq).sum(-1)            # (ntv,)
        with numpy.errstate(all="ignore"):
            out["_classical"] = t[:, None] / v[None, :] * sg[None, :] ** 2 / numpy.abs(9 * ei * ej)[None, :] / numpy.abs(cv)
        # cancellation-aware magnitude: sum_qm gamma Q2 can pass through zero when gammas have mixed signs
        ra = fph.closed_form_from_arrays(calc.freq_array, g, calc.mode_gamma[0], _weights(calc), t, v, ei, ej, True)
        with numpy.errstate(all="ignore"):
            out["_abs"] = t[:, None] / v[None, :] * ra["dsdx"] ** 2 / numpy.abs(9 * ei * ej)[None, :] / numpy.abs(cv)
        return out

    def judge_returned_values(self, obj, adi, iso):
        """The same judgement at the boundary: value_adiabatic - value_isothermal as the caller received them (independent of
        which class or method produced the correction - an override in a subclass never passes through the hook above)."""
        with numpy.errstate(all="ignore"):
            d = numpy.asarray(adi) - numpy.asarray(iso)
        self.on_gap(obj, "value_adiabatic - value_isothermal", d, extra_abs=4e-16 * numpy.abs(numpy.asarray(iso)), tag=":returned-values")

    def on_gap(self, obj, name, value, extra_abs=0.0, tag=""):
        if not self.judge_gap:
            return
        ctx = self.ctx
        kind = self._kind(obj)
        cid = self.case_id_fn()
        calc = obj.calculator
        t = numpy.asarray(calc.t_array, dtype=float)
        cv = numpy.asarray(calc.qha_calculator.volume_base.heat_capacity, dtype=float)
        gap = numpy.asarray(value)
        ctx.count("monitor:gap_objects" + tag)
        try:
            refs = self.gap_reference(obj)
        except Exception as exc:
            ctx.harness_error("NonShearMonitor.on_gap", exc)
            return
        z = t == 0
        if z.any() and numpy.any(gap[z] != 0):
            ctx.violation(f"{kind}:gap:nonzero-at-T0{tag}", f"adiabatic-isothermal gap at T=0 is {gap[z].ravel()[:3]}", cid)
        ok = (cv > 0) & (t[:, None] > 0) & numpy.isfinite(cv)
        if numpy.iscomplexobj(gap):
            ctx.violation(f"{kind}:gap:complex", "gap is complex", cid)
            return
        if not numpy.all(numpy.isfinite(gap[ok])):
            i = numpy.argwhere(ok & ~numpy.isfinite(gap))[0]
            cls = "lowT" if t[i[0]] < 20 else "other"
            ctx.violation(f"{kind}:gap:non-finite:{cls}", f"gap non-finite at T={t[i[0]]} although C_V>0", cid)
            return
        same_index = numpy.array_equal(numpy.asarray(_strains_given(obj)[0]), numpy.asarray(_strains_given(obj)[1]))
        classical = refs.pop("_classical")
        absmag = refs.pop("_abs")
        for src, (ref, tol) in refs.items():
            scale = numpy.maximum(numpy.abs(ref), absmag) + 1e-9 * classical + 1e-300
            e = numpy.where(ok, numpy.abs(gap - ref) / (scale * tol + extra_abs), 0)
            nz = ok & (numpy.abs(ref) > 1e-9 * classical)
            if nz.any():
                ctx.count("monitor:gap_points_nontrivial", int(nz.sum()))
                emax = e[nz].max()
                ctx.maxi(f"gap_err/tol[{src}]{tag}", emax)
                if not (emax <= 1.0):
                    i = numpy.argwhere(nz & (e >= emax))[0]
                    ctx.violation(f"{kind}:gap:mismatch[{src}]{tag}",
                                  f"gap {gap[tuple(i)]!r} vs T V (dP/dT)^2/(9 e_i e_j C_V) = {ref[tuple(i)]!r} "
                                  f"(ratio {gap[tuple(i)] / ref[tuple(i)]:.6g}) at T={t[i[0]]}", cid)
        if same_index and ok.any() and numpy.any(gap[ok] < -1e-12 * numpy.abs(gap[ok]).max() - numpy.max(extra_abs)):
            ctx.violation(f"{kind}:gap:negative-on-diagonal", f"diagonal gap negative with C_V>0: min {gap[ok].min()!r}", cid)

    def on_adiabatic(self, obj, val):
        ctx = self.ctx
        ctx.count("monitor:adiabatic_reads")
        iso = numpy.asarray(obj.value_isothermal)
        gap = numpy.asarray(obj.isothermal_to_adiabatic)
        with numpy.errstate(all="ignore"):
            d = numpy.asarray(val) - iso
        fin = numpy.isfinite(gap) & numpy.isfinite(iso)
        if fin.any():
            e = numpy.abs(d - gap)[fin] / (numpy.abs(iso)[fin] + numpy.abs(gap)[fin] + 1e-300)
            if e.max() > 1e-12:
                ctx.violation(f"{self._kind(obj)}:adiabatic!=isothermal+gap", f"value_adiabatic - value_isothermal differs from the gap by {e.max():.3g} (relative)",
                              self.case_id_fn())


class TaskMonitor:
    """Event log over the real scheduler (tasks.py) plus an offline checker.

    Events: ('resolve', n_tasks), ('eval', store, task_index), ('write', store, sig), ('read', store, sig, ok)
    where store is 'iso' or 'adi' and sig identifies (calc type, key, strain digest)."""

    def __init__(self, ctx, case_id_fn=lambda: None):
        self.ctx = ctx
        self.case_id_fn = case_id_fn
        self.undo = []
        self.events = []
        self.store_names = {}
        self.in_calculate = False
        self.current_list = None
        self.histories = set()
        self.params_seen = []       # every PhononContributionTaskParams created since the last reset (C04 de-dup window detection)

    def attach(self):
        import cij.core.tasks as tk
        self.tk = tk
        mon = self

        class Sig(tuple):
            """(type, key, strain arrays) with the property's own notion of sameness: equal type and key,
            strains equal to numpy.allclose (the de-duplication by approximate equality)."""
            def __eq__(self, other):
                if self[0] != other[0] or self[1] != other[1] or len(self[2]) != len(other[2]):
                    return False
                return all(x.shape == y.shape and numpy.allclose(x, y) for x, y in zip(self[2], other[2]))
            __hash__ = None

            def __repr__(self):
                return f"{self[0]}{self[1]}~{[numpy.round(x.ravel()[:3], 6).tolist() for x in self[2]]}"

        def sig(params):
            try:
                if params.calc_type == tk.ElasticModulusCalculationType.SHEAR:
                    s, key = params.params
                    return Sig(("S", tuple(int(x) for x in key.voigt), (numpy.asarray(s, float),)))
                a, b = params.params
                return Sig((params.calc_type.name[0], None, (numpy.asarray(a, float), numpy.asarray(b, float))))
            except Exception:
                return Sig(("?", repr(params)[:40], ()))
        self.sig = sig

        def to_params(_key):
            if isinstance(_key, tk.PhononContributionTaskParams):
                return _key
            strain, key = _key
            return tk.PhononContributionTaskParams.create(strain, key)

        def set_before(args, kwargs):
            store = mon.store_names.get(id(args[0]))
            if store:
                mon.events.append(("write", store, sig(to_params(args[1])), args[2]))

        def get_after(args, kwargs, result, exc):
            store = mon.store_names.get(id(args[0]))
            if store:
                mon.events.append(("read", store, sig(to_params(args[1])), exc is None, mon.in_calculate))

        def create_after(args, kwargs, result, exc):
            if exc is None and len(mon.params_seen) < 200000:
                mon.params_seen.append(result)
        self.undo.append(hook_method(tk.PhononContributionTaskParams, "create", after=create_after))

        R = tk.PhononContributionTaskResults
        self.undo.append(hook_method(R, "__setitem__", before=set_before))
        self.undo.append(hook_method(R, "__getitem__", after=get_after))

        def calc_before(args, kwargs):
            tl = args[0]
            mon.store_names = {id(tl.modulus_isothermal_values): "iso", id(tl.modulus_adiabatic_values): "adi"}
            mon.in_calculate = True
            mon.current_list = tl
            mon.events.append(("calculate-begin",))

        def calc_after(args, kwargs, result, exc):
            mon.in_calculate = False
            mon.events.append(("calculate-end", exc is None))
            mon.check_calculate(args[0], exc)

        L = tk.PhononContributionTaskList
        self.undo.append(hook_method(L, "calculate", before=calc_before, after=calc_after))

        def resolve_after(args, kwargs, result, exc):
            if exc is None:
                mon.check_resolve(args[0])
        self.undo.append(hook_method(L, "resolve", after=resolve_after))

        T_ = tk.PhononContributionTask

        def iso_before(args, kwargs):
            mon.events.append(("eval", "iso", id(args[0])))

        def adi_before(args, kwargs):
            task = args[0]
            mon.events.append(("eval", "adi", id(task)))
            if task.calc_type == tk.ElasticModulusCalculationType.SHEAR and mon.current_list is not None:
                mon.check_shear_inputs(task)
        self.undo.append(hook_method(T_, "get_modulus_isothermal", before=iso_before))
        self.undo.append(hook_method(T_, "get_modulus_adiabatic", before=adi_before))
        return self

    def detach(self):
        for u in reversed(self.undo):
            u()
        self.undo = []

    # ---- checks ---------------------------------------------------------------------------
    def check_resolve(self, tl):
        import networkx as nx
        ctx, cid, tk = self.ctx, self.case_id_fn(), self.tk
        ctx.count("monitor:resolve_calls")
        g = tl._graph
        if not nx.is_directed_acyclic_graph(g):
            ctx.violation("scheduler:cyclic-dependency-graph", f"dependency graph has a cycle ({g.number_of_nodes()} tasks)", cid)
            return
        if len(tl.data) != len(tl._tasks) or {id(t) for t in tl.data} != {id(t) for t in tl._tasks}:
            ctx.violation("scheduler:order-is-not-a-permutation-of-tasks", f"{len(tl.data)} ordered vs {len(tl._tasks)} created", cid)
        pos = {id(t): n for n, t in enumerate(tl.data)}
        order_sig = []
        for n, task in enumerate(tl.data):
            order_sig.append((self.sig(task.task_params)[0], self.sig(task.task_params)[1]))
            for strain, key in task.get_dependencies():
                p = tk.PhononContributionTaskParams.create(strain, key)
                cands = [m for m, t in enumerate(tl.data) if t.task_params == p]
                ctx.count("monitor:dependency_edges_checked")
                if not cands:
                    ctx.violation("scheduler:dependency-has-no-task", f"task #{n} {task.key!r} depends on {key!r} which no task provides", cid)
                elif min(cands) >= n:
                    ctx.violation("scheduler:dependency-after-dependent",
                                  f"task #{n} {task.key!r} is ordered before its dependency {key!r} (#{min(cands)})", cid)
        self.histories.add(tuple(order_sig))

    def check_shear_inputs(self, task):
        """At the moment a shear task's adiabatic value is requested, its inputs must be the
        arrays of the isothermal store."""
        ctx, cid = self.ctx, self.case_id_fn()
        tl = self.current_list
        iso_ids = {id(v) for v in tl.modulus_isothermal_values.data.values()}
        adi_vals = list(tl.modulus_adiabatic_values.data.values())
        ctx.count("monitor:shear_adiabatic_inputs_checked")
        for nm in ("modulus", "modulus_rotated"):
            d = getattr(task.calculator, nm, None)
            if d is None:
                ctx.violation("shear:adiabatic-without-inputs", f"shear task {task.key!r}: .{nm} not set before get_modulus_adiabatic", cid)
                continue
            for k, arr in d.items():
                if id(arr) in iso_ids:
                    continue
                if any(numpy.array_equal(arr, v) for v in tl.modulus_isothermal_values.data.values()):
                    continue
                which = "adiabatic store" if any(arr is v or numpy.array_equal(arr, v) for v in adi_vals) else "neither store"
                ctx.violation("shear:adiabatic-fed-from-non-isothermal",
                              f"shear task {task.key!r}: input {k!r} in .{nm} comes from the {which}, not from the isothermal results", cid)
                return

    def check_calculate(self, tl, exc):
        ctx, cid = self.ctx, self.case_id_fn()
        ctx.count("monitor:calculate_calls")
        # slice of the log belonging to this calculate()
        start = max(i for i, e in enumerate(self.events) if e[0] == "calculate-begin")
        log = self.events[start:]
        written = {"iso": [], "adi": []}
        evals = {}
        for e in log:
            if e[0] == "write":
                _, store, s, arr = e
                for s2, a2 in written[store]:
                    if s2 == s and not numpy.array_equal(numpy.asarray(arr), numpy.asarray(a2), equal_nan=True):
                        ctx.violation("scheduler:two-writes-differ", f"two results stored under the same parameters {s} differ", cid)
                written[store].append((s, arr))
            elif e[0] == "read":
                _, store, s, ok, in_calc = e
                ctx.count("monitor:store_reads")
                if not ok or not any(s2 == s for s2, _ in written[store]):
                    ctx.violation("scheduler:read-before-write", f"result {s} read from the {store} store before it was written", cid)
                if in_calc and store == "adi":
                    ctx.violation("shear:dependencies-read-from-adiabatic-store", f"{s} read from the adiabatic store while computing dependants", cid)
            elif e[0] == "eval":
                evals[(e[1], e[2])] = evals.get((e[1], e[2]), 0) + 1
        if exc is None:
            for task in tl.data:
                for store in ("iso", "adi"):
                    n = evals.get((store, id(task)), 0)
                    if n != 1:
                        ctx.violation("scheduler:task-evaluated-not-once", f"task {task.key!r} evaluated {n} times for the {store} results", cid)
                        break
        self.events = []


# =====================================================================================
# VRH / compliance / velocity judge (used on duck-typed fields in C07 and on real runs)
# =====================================================================================
def judge_vrh(ctx, calc, vb, case_id, tag="", rel=1e-9, vel_rel=1e-7):
    """Compare everything CijVolumeBaseInterface ``vb`` reports with the full-tensor oracle
    built from the reported adiabatic stiffness ``calc.modulus_adiabatic``.  Returns the
    number of grid points judged."""
    from .oracles import tensor as TT
    nt, ntv = numpy.asarray(vb.t_array).shape[0], numpy.asarray(vb.v_array).shape[0]
    c66 = numpy.zeros((nt, ntv, 6, 6))
    for key, arr in calc.modulus_adiabatic.items():
        a, b = (int(x) for x in key.voigt)
        c66[..., a - 1, b - 1] = arr
        c66[..., b - 1, a - 1] = arr
    if not numpy.all(numpy.isfinite(c66)):
        ctx.count("vrh:skipped_nonfinite_stiffness")
        return 0
    ev = numpy.linalg.eigvalsh(c66)
    pd = ev[..., 0] > 1e-3 * ev[..., -1]
    if not pd.any():
        ctx.count("vrh:no_positive_definite_point")
        return 0
    ctx.count("vrh:grid_points_judged", int(pd.sum()))
    safe = numpy.where(pd[..., None, None], c66, numpy.eye(6))
    ref = TT.vrh_from_c66(safe)
    names = {"bulk_modulus_voigt": "kv", "bulk_modulus_reuss": "kr", "bulk_modulus_voigt_reuss_hill": "kh",
             "shear_modulus_voigt": "gv", "shear_modulus_reuss": "gr", "shear_modulus_voigt_reuss_hill": "gh"}
    got = {}
    for prop, rk in names.items():
        try:
            val = numpy.asarray(getattr(vb, prop))
        except Exception as exc:
            ctx.violation(f"vrh:{prop}:raises:{type(exc).__name__}", f"{tag}: reading {prop} raised {exc!r}", case_id)
            continue
        got[rk] = val
        if val.shape != (nt, ntv):
            ctx.violation(f"vrh:{prop}:shape", f"{tag}: {prop} has shape {val.shape}", case_id)
            continue
        err = numpy.abs(val - ref[rk])[pd] / numpy.abs(ref[rk])[pd]
        ctx.maxi("vrh_err/tol", err.max() / rel)
        if not (err.max() <= rel):
            i = numpy.argwhere(pd)[int(numpy.argmax(err))]
            ctx.violation(f"vrh:{prop}:mismatch", f"{tag}: {prop} = {val[tuple(i)]!r}, full-tensor value {ref[rk][tuple(i)]!r} "
                          f"(ratio {val[tuple(i)] / ref[rk][tuple(i)]:.6g})", case_id)
    for lo, mid, hi, nm in (("kr", "kh", "kv", "bulk"), ("gr", "gh", "gv", "shear")):
        if lo in got and mid in got and hi in got:
            slack = 1e-12 * numpy.abs(got[hi])
            if numpy.any((got[lo] > got[mid] + slack)[pd]) or numpy.any((got[mid] > got[hi] + slack)[pd]):
                ctx.violation(f"vrh:{nm}:bounds-order", f"{tag}: Reuss <= Hill <= Voigt violated for the {nm} modulus", case_id)
    # reported compliances x reported stiffness = identity
    comp = getattr(calc, "_compliances", None)
    if comp is not None:
        s66 = numpy.zeros((nt, ntv, 6, 6))
        for key, arr in comp.items():
            a, b = (int(x) for x in key.voigt)
            s66[..., a - 1, b - 1] = arr
            s66[..., b - 1, a - 1] = arr
        prod = numpy.einsum("...ij,...jk->...ik", s66, c66)
        err = numpy.abs(prod - numpy.eye(6))[pd]
        ctx.maxi("compliance_identity_err/tol", err.max() / 1e-7)
        if not (err.max() <= 1e-7):
            ctx.violation("compliance:not-the-inverse", f"{tag}: reported s x reported c deviates from identity by {err.max():.3g}", case_id)
        # attribute-style lookup must hand out exactly those arrays
        for key, arr in comp.items():
            a, b = (int(x) for x in key.voigt)
            for nm in (f"s{a}{b}", f"s_{a}{b}"):
                try:
                    if not numpy.array_equal(getattr(vb, nm), arr):
                        ctx.violation("lookup:s_ij-wrong-array", f"{tag}: volume_base.{nm} is not the stored compliance", case_id)
                except AttributeError:
                    ctx.violation("lookup:s_ij-missing", f"{tag}: volume_base.{nm} raises AttributeError although it is stored", case_id)
    for key, arr in calc.modulus_adiabatic.items():
        a, b = (int(x) for x in key.voigt)
        st = "%d%d%d%d" % tuple(int(x) for x in key.standard)
        try:
            if not (numpy.array_equal(getattr(vb, f"c{a}{b}"), arr) and numpy.array_equal(getattr(vb, f"c{a}{b}s"), arr)
                    and numpy.array_equal(getattr(vb, f"c_{a}{b}"), arr) and numpy.array_equal(getattr(vb, f"c{st}"), arr)):
                ctx.violation("lookup:c_ij-wrong-array", f"{tag}: volume_base.c{a}{b}/c{a}{b}s/c_{a}{b}/c{st} is not the adiabatic modulus", case_id)
            if not numpy.array_equal(getattr(vb, f"c{a}{b}t"), calc.modulus_isothermal[key]):
                ctx.violation("lookup:c_ij_t-wrong-array", f"{tag}: volume_base.c{a}{b}t is not the isothermal modulus", case_id)
        except AttributeError as exc:
            ctx.violation("lookup:c_ij-missing", f"{tag}: lookup of c{a}{b} failed: {exc!r}", case_id)
    # velocities: rho v_s^2 = G_VRH, rho v_p^2 = K_VRH + 4/3 G_VRH, rho = m/(N_A V), km/s
    mass = float(calc.elast_data.cellmass)
    v = numpy.asarray(vb.v_array, dtype=float)
    for prop, mod in (("secondary_velocities", ref["gh"]), ("primary_velocities", ref["kh"] + 4.0 / 3.0 * ref["gh"])):
        try:
            val = numpy.asarray(getattr(vb, prop))
        except Exception as exc:
            ctx.violation(f"velocity:{prop}:raises:{type(exc).__name__}", f"{tag}: {exc!r}", case_id)
            continue
        want = U.velocity_kms(numpy.where(pd, mod, 1.0), mass, v[None, :])
        err = (numpy.abs(val - want) / want)[pd]
        ctx.maxi("velocity_err/tol", err.max() / vel_rel)
        if not (err.max() <= vel_rel):
            i = numpy.argwhere(pd)[int(numpy.argmax(err))]
            ctx.violation(f"velocity:{prop}:mismatch", f"{tag}: {prop} = {val[tuple(i)]!r} km/s, oracle {want[tuple(i)]!r} "
                          f"(ratio {val[tuple(i)] / want[tuple(i)]:.6g})", case_id)
    return int(pd.sum())
