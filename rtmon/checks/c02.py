"""C02 - adiabatic minus isothermal gap; zero for shear components and at T=0."""
import numpy

from ..monitors import NonShearMonitor, TaskMonitor
from ..oracles import tensor as T
from ..workloads import spec as W
from ..trace import CallCounter
from ..runner import classify_exception, exc_site, exc_text
from .c01 import gen_case
from .c04 import run_list, strain_field, ALL21


def run(ctx):
    cc = CallCounter().start()
    current = {"id": None}
    mon = NonShearMonitor(ctx, lambda: current["id"], judge_gap=True).attach()
    tmon = TaskMonitor(ctx, lambda: current["id"]).attach()
    try:
        _direct(ctx, current, mon)
        _through_tasks(ctx, current)
    finally:
        tmon.detach()
        mon.detach()
        cc.stop()
    cc.report(ctx, ["nonshear.py:LongitudinalElasticModulusPhononContribution.isothermal_to_adiabatic",
                    "nonshear.py:LongitudinalElasticModulusPhononContribution.value_adiabatic",
                    "shear.py:ShearElasticModulusPhononContribution.value_adiabatic",
                    "tasks.py:PhononContributionTask.get_modulus_adiabatic",
                    "tasks.py:PhononContributionTaskList.calculate"])
    ctx.require("monitor:gap_objects", 6)
    ctx.require("monitor:gap_points_nontrivial", 50)
    ctx.require("monitor:shear_adiabatic_inputs_checked", 5)
    ctx.require("shear_identity_nontrivial", 1)


def _direct(ctx, current, mon):
    import cij.core.phonon_contribution.nonshear as ns
    ncases = ctx.pick(60, 15000)
    prev = None
    for i in list(range(ncases)) + [10 ** 6 + 5 * j_ + 2 for j_ in range(ctx.pick(2, 6))]:
        case_id = f"case{i}"
        if not ctx.mine(i, case_id):
            continue
        current["id"] = case_id
        big = i >= 10 ** 6
        reuse = prev if (prev is not None and (i // ctx.nshards) % 3 == 1 and not big) else None      # new spectrum on the grid of the case before
        rng, hostile, spec, t, v, strains, fill, calc = gen_case(ctx, i, reuse=reuse, big=big)
        if big:
            hostile = "large-grid"
        if reuse is not None:
            hostile = (hostile or "generic") + "+grid-of-previous-case"
        prev = (spec.v0, t, v, spec.weights, strains, spec.nq, spec.natoms)
        if i % 5 == 4:
            # one axis lengthens under compression (negative linear compressibility): its strain fraction is negative, the
            # off-diagonal gaps that involve it are negative; the fractions still sum to 1
            k = int(rng.integers(0, 3))
            strains = strains.copy()
            strains[:, k] *= -float(rng.uniform(0.2, 0.8))
            strains /= strains.sum(axis=1, keepdims=True)
            hostile = (hostile or "generic") + "+negative-axis"
        # heat capacity: positive fields over many decades; one class with a non-positive patch (not judged there)
        cvk = i % 4
        cv = calc.qha_calculator.volume_base.heat_capacity
        if cvk == 3 and cv.size > 2:
            cv = cv.copy()
            cv[0, 0] = 0.0
            cv[-1, -1] = -1e-5
            calc.qha_calculator.volume_base.heat_capacity = cv
        for (a, b) in [(0, 0), (1, 1), (2, 2), (0, 1), (0, 2), (1, 2), (1, 0)]:
            cls_ = ns.LongitudinalElasticModulusPhononContribution if a == b else ns.OffDiagonalElasticModulusPhononContribution
            kind = "longitudinal" if a == b else "offdiag"
            try:
                with numpy.errstate(all="ignore"):
                    obj = cls_(calc, (strains[:, a], strains[:, b]))
                    obj._oracle_e = (strains[:, a].copy(), strains[:, b].copy())      # what was handed over, whatever the object keeps
                    adi = numpy.asarray(obj.value_adiabatic)
                    iso = numpy.asarray(obj.value_isothermal)
            except Exception as exc:
                if classify_exception(exc) == "code":
                    ctx.violation(f"{kind}:raises:{type(exc).__name__}:{exc_site(exc)}", exc_text(exc), case_id)
                else:
                    ctx.harness_error("C02.direct", exc)
                continue
            with numpy.errstate(all="ignore"):
                gap = adi - iso
            mon.judge_returned_values(obj, adi, iso)
            ok = (cv > 0) & (t[:, None] > 0)
            nontriv = bool(ok.any() and numpy.any(numpy.abs(gap[ok]) > 0))
            ctx.evaluation(f"{kind}|{hostile or 'generic'}|cv={'positive' if cvk != 3 else 'with-nonpositive-patch'}",
                           (W.spec_digest(spec, t, v), a, b), nontrivial=nontriv,
                           sample={"component": f"c{a+1}{b+1}", "T": t[:5], "C_V[0,:3]": cv[0, :3], "gap[row with largest T, :3]": gap[int(numpy.argmax(t)), :3]})


def _through_tasks(ctx, current):
    """All 21 keys through the real task list: shear adiabatic == isothermal element-wise, while the
    non-shear dependencies do differ between the two stores (otherwise trivial)."""
    n = ctx.pick(8, 1500)
    classes = ["constant", "varying", "equal", "pairwise-equal"]
    for i in range(n):
        case_id = f"tasks{i}"
        if not ctx.mine(10 ** 6 + i, case_id):
            continue
        current["id"] = case_id
        rng = ctx.rng("tasks", i)
        spec = W.gen_spectrum(rng, nq=int(rng.integers(1, 4)), natoms=int(rng.integers(1, 4)))
        ntv = int(rng.integers(2, 7))
        v = spec.v0 * numpy.exp(numpy.linspace(0.1, -0.2, ntv))
        t = numpy.array([0.0, 150.0, 900.0, 3000.0])[: int(rng.integers(2, 5))]
        calc = W.make_calc(rng, spec, t, v)
        calc._oracle_spectrum = spec
        cls = classes[i % 4]
        strain = strain_field(rng, ntv, cls)
        keys = ALL21 if i % 2 == 0 else [ALL21[int(j)] for j in rng.permutation(21)[: int(rng.integers(4, 21))]]
        r = run_list(ctx, calc, strain, keys, case_id, f"C02/{cls}")
        if r is None:
            ctx.evaluation(f"task-list|{cls}", (i, tuple(keys)))
            continue
        iso, adi, tl = r
        shear = [p for p in keys if T.classify(*p) == "shear"]
        nonshear = [p for p in keys if T.classify(*p) != "shear"]
        # non-shear stores must differ somewhere at T>0, otherwise feeding from the wrong store is invisible
        dep_differs = any(numpy.any(numpy.asarray(a) != numpy.asarray(b))
                          for a, b in zip(tl.modulus_adiabatic_values.data.values(), tl.modulus_isothermal_values.data.values()))
        for p in shear:
            if not numpy.array_equal(adi[p], iso[p]):
                d = numpy.abs(adi[p] - iso[p])
                ctx.violation("shear:adiabatic!=isothermal", f"{cls}: c{p[0]}{p[1]} adiabatic differs from isothermal (max {d.max():.3g})", case_id,
                              {"request": keys, "strain_class": cls})
                break
        for p in nonshear:
            z = t == 0
            if z.any() and numpy.any((adi[p] - iso[p])[z] != 0):
                ctx.violation("nonshear:gap-nonzero-at-T0:via-tasks", f"c{p[0]}{p[1]}: adiabatic != isothermal at T=0", case_id)
        if shear and dep_differs:
            ctx.count("shear_identity_nontrivial", len(shear))
        ctx.evaluation(f"task-list|{cls}", (i, tuple(keys)), nontrivial=bool(shear and dep_differs),
                       sample={"strain_class": cls, "request": ["c%d%d" % p for p in keys[:8]], "shear_keys_checked": len(shear),
                               "dependency_stores_differ": dep_differs})
