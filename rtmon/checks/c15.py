"""C15 - output files carry the in-memory results on the requested grids, units and names."""
import hashlib
import os
import subprocess

import numpy

from ..e2e import E2E
from ..oracles import fileio as F
from ..oracles import laue
from ..oracles import tensor as T
from ..oracles import units as U
from ..workloads import files as WF
from ..trace import CallCounter
from ..runner import classify_exception, exc_site, exc_text, repo_dir, PY

# The oracle's own transcription of the documented output table (docs/usage/output.rst):
#   keywords -> (file-name pattern, in-memory quantity, documented unit, factor from internal to documented unit, bases)
GPA, ANG3 = U.GPA_PER_AU, U.ANG3_PER_BOHR3
DOC = [
    (["cij_s", "cij", "adiabatic_elastic_moduli"], "c{ij}s_{base}_gpa.txt", "modulus_adiabatic", GPA, "ij", ("tp", "tv")),
    (["cij_t", "isothermal_elastic_moduli"], "c{ij}t_{base}_gpa.txt", "modulus_isothermal", GPA, "ij", ("tp", "tv")),
    (["B_V", "Bm_V", "bm_V", "bulk_modulus_voigt"], "bm_V_{base}_gpa.txt", "bulk_modulus_voigt", GPA, "v", ("tp", "tv")),
    (["B_R", "Bm_R", "bm_R", "bulk_modulus_reuss"], "bm_R_{base}_gpa.txt", "bulk_modulus_reuss", GPA, "v", ("tp", "tv")),
    (["B_VRH", "Bm_VRH", "bm_VRH", "bulk_modulus_voigt_reuss_hill"], "bm_VRH_{base}_gpa.txt", "bulk_modulus_voigt_reuss_hill", GPA, "v", ("tp", "tv")),
    (["G_V", "shear_modulus_voigt"], "G_V_{base}_gpa.txt", "shear_modulus_voigt", GPA, "v", ("tp", "tv")),
    (["G_R", "shear_modulus_reuss"], "G_R_{base}_gpa.txt", "shear_modulus_reuss", GPA, "v", ("tp", "tv")),
    (["G_VRH", "shear_modulus_voigt_reuss_hill"], "G_VRH_{base}_gpa.txt", "shear_modulus_voigt_reuss_hill", GPA, "v", ("tp", "tv")),
    (["v_p", "vp", "primary_velocities"], "v_p_{base}_km_s.txt", "primary_velocities", 1.0, "v", ("tp", "tv")),
    (["v_s", "vs", "secondary_velocities"], "v_s_{base}_km_s.txt", "secondary_velocities", 1.0, "v", ("tp", "tv")),
    (["v", "V", "volumes"], "v_{base}_ang3.txt", "volumes", ANG3, "v", ("tp",)),
    (["p", "P", "pressures"], "p_{base}_gpa.txt", "pressures", GPA, "v", ("tv",)),
]
UNIT_OVERRIDES = {"GPa": [("kbar", 10.0), ("Pa", 1e9), ("MPa", 1e3)], "km/s": [("m/s", 1e3)], "A3": [("bohr^3", 1 / ANG3), ("nm^3", 1e-3)]}


def sha(path):
    return hashlib.sha256(open(path, "rb").read()).hexdigest()


def run(ctx):
    cc = CallCounter().start()
    here = os.getcwd()
    try:
        with E2E(ctx, nonshear=False, tasks=False) as e2e:
            _run(ctx, e2e)
    finally:
        os.chdir(here)
        cc.stop()
    cc.report(ctx, ["results_writer.py:ResultsWriter.write", "results_writer.py:ResultsWriterRule.write_variable",
                    "results_writer.py:ResultsWriterRule.write_ij_variable", "calculator.py:CijVolumeBaseInterface.write_table",
                    "calculator.py:CijPressureBaseInterface.write_table", "calculator.py:Calculator.write_output"])
    ctx.require("files_judged", 30)
    ctx.require("adiabatic_vs_isothermal_decided", 2)


def check_file(ctx, path, base, want_values, factor, calc, qs, case_id, cls, data):
    """Parse one written table with the oracle's reader and compare labels and cells."""
    try:
        corner, cols, rows, vals = F.read_table(path)
    except Exception as exc:
        ctx.violation(f"unreadable-output:{cls}", f"{os.path.basename(path)} cannot be parsed: {exc!r}", case_id, data)
        return False
    nt, ntv = qs["NT"], qs["NTV"]
    t_want = qs["T_MIN"] + qs["DT"] * numpy.arange(nt)
    if len(rows) != nt or numpy.abs(rows - t_want).max() > 1e-9 * max(1.0, numpy.abs(t_want).max()):
        ctx.violation(f"row-labels:{base}", f"{os.path.basename(path)}: {len(rows)} rows labelled {rows[:3]}..., expected {nt} rows T_MIN + k DT = {t_want[:3]}...",
                      case_id, data)
        return False
    if base == "tp":
        c_want = qs["P_MIN"] + qs["DELTA_P"] * numpy.arange(ntv)
        ok = len(cols) == ntv and numpy.abs(cols - c_want).max() <= 1.5e-6 + 1e-9 * numpy.abs(c_want).max()
        what = "P_MIN + j DELTA_P (GPa)"
    else:
        c_want = U.bohr3_to_ang3(numpy.asarray(calc.v_array, float))
        ok = len(cols) == len(c_want) and numpy.abs(cols - c_want).max() <= 1.5e-6 + 1e-8 * numpy.abs(c_want).max()
        what = "grid volumes (A^3)"
    if not ok:
        ctx.violation(f"column-labels:{base}", f"{os.path.basename(path)}: column labels {cols[:3]}... expected {what} {c_want[:3]}...", case_id, data)
        return False
    want = numpy.asarray(want_values, float)[:nt] * factor
    if vals.shape != want.shape:
        ctx.violation(f"table-shape:{base}", f"{os.path.basename(path)}: {vals.shape} cells, in-memory {want.shape}", case_id, data)
        return False
    fin = numpy.isfinite(want)
    if not numpy.array_equal(numpy.isfinite(vals), fin):
        ctx.violation(f"cells:finiteness:{cls}", f"{os.path.basename(path)}: NaN pattern differs from the in-memory result", case_id, data)
        return False
    if fin.any():
        err = numpy.abs(vals[fin] - want[fin]).max() / (numpy.abs(want[fin]).max() + 1e-300)
        ctx.maxi("cell_err/tol", err / 1e-8)
        if not (err <= 1e-8):
            ratio = numpy.median(vals[fin] / want[fin]) if numpy.all(want[fin] != 0) else float("nan")
            ctx.violation(f"cells:{cls}:{base}", f"{os.path.basename(path)}: cells differ from the in-memory result in the documented unit by {err:.3g} "
                          f"(median ratio {ratio:.6g})", case_id, data)
            return False
    ctx.count("files_judged")
    ctx.count("cells_compared", int(fin.sum()))
    return True


def _run(ctx, e2e):
    n = ctx.pick(12, 1500)
    for i in range(n):
        case_id = f"ds{i}"
        if not ctx.mine(i, case_id):
            continue
        rng = ctx.rng("ds", i)
        system = laue.SYSTEMS[i % 9]
        ds = WF.gen_dataset(rng, system=system, nq=int(rng.integers(1, 4)), natoms=int(rng.integers(1, 4)))
        cfg = WF.gen_settings(rng, ds, interpolator="lsq_poly", nt=int(rng.integers(1, 9)), ntv=int(rng.integers(8, 31)),
                              tmin=float(rng.choice([0, 10, 300, 0.5])), dt=float(rng.choice([0.5, 2, 50, 100])))
        if i % 2:      # integer-valued grid settings, as users write them
            for k in ("T_MIN", "DT", "DT_SAMPLE"):
                if float(cfg["qha"]["settings"][k]).is_integer():
                    cfg["qha"]["settings"][k] = int(cfg["qha"]["settings"][k])
        wd = e2e.workdir(case_id)
        WF.write_dataset(ds, cfg, wd)
        try:
            p_lo, p_hi, _ = WF.probe_pressure_range(ds, cfg, wd)
        except Exception as exc:
            ctx.inconc(f"QHA probe failed: {exc!r}")
            continue
        if not (p_hi - p_lo > 1.0):
            continue
        WF.place_pressures(rng, cfg, p_lo, p_hi)
        if i % 3 == 1:
            # pressures as people type them: P_MIN with two decimals (x.25, x.75 ...), DELTA_P with one decimal or none - the column
            # labels are P_MIN + j DELTA_P whatever the number of decimals of either
            qs_ = cfg["qha"]["settings"]
            dp_ = max(0.1, float(numpy.floor(qs_["DELTA_P"] * 10) / 10)) if qs_["DELTA_P"] < 1 or i % 2 else max(1.0, float(numpy.floor(qs_["DELTA_P"])))
            pm_ = float(numpy.ceil(qs_["P_MIN"] * 4) / 4) + (0.25 if float(numpy.ceil(qs_["P_MIN"] * 4) / 4) == round(qs_["P_MIN"]) else 0.0)
            if pm_ + dp_ * (qs_["NTV"] - 1) < p_hi - 0.02 * (p_hi - p_lo) and pm_ > p_lo:
                qs_["P_MIN"], qs_["DELTA_P"] = pm_, dp_
                ctx.count("decimal_pressure_grids")
        # the sampling intervals of the QHA layer must not thin out cij's tables: rows are T_MIN + k DT for every k < NT
        cfg["qha"]["settings"]["DT_SAMPLE"] = cfg["qha"]["settings"]["DT"] * int(rng.choice([1, 2, 5]))
        cfg["qha"]["settings"]["DELTA_P_SAMPLE"] = cfg["qha"]["settings"]["DELTA_P"] * int(rng.choice([1, 2, 3]))
        # ---- an output section exercising every keyword/alias of both bases ------------------------------------
        alias_round = i % 4
        out_cfg = {"pressure_base": [], "volume_base": []}
        plan = []     # (base, doc entry, keyword used, override dict)
        for ent in DOC:
            kws, pattern, prop, factor, kind, bases = ent
            for base in bases:
                kw = kws[alias_round % len(kws)]
                out_cfg["pressure_base" if base == "tp" else "volume_base"].append(kw)
                plan.append((base, ent, kw, None))
        cfg["output"] = out_cfg
        path = WF.write_dataset(ds, cfg, wd)
        calc, exc = e2e.run(path, case_id)
        qs = cfg["qha"]["settings"]
        sample = {"system": system, "NT": qs["NT"], "DT": qs["DT"], "T_MIN": qs["T_MIN"], "NTV": qs["NTV"], "P_MIN": qs["P_MIN"], "DELTA_P": qs["DELTA_P"],
                  "keywords": out_cfg}
        if exc is not None:
            ctx.evaluation("write_output", (i,), sample=sample)
            e2e.report_construction_failure(exc, case_id, "output-run", {"config": cfg})
            continue
        outdir = os.path.join(wd, "out")
        os.makedirs(outdir)
        os.chdir(outdir)
        try:
            calc.write_output()
        except Exception as exc:
            os.chdir(wd)
            if classify_exception(exc) == "code":
                ctx.violation(f"write_output-raises:{type(exc).__name__}:{exc_site(exc)}", exc_text(exc), case_id, {"config": cfg})
            else:
                ctx.harness_error("C15.write_output", exc)
            continue
        os.chdir(wd)
        written = set(os.listdir(outdir))
        expected = {}
        comps = [tuple(int(x) for x in k.voigt) for k in calc.modulus_keys]
        # in-memory reference: volume-base quantities as they are; pressure-base quantities converted by the oracle's own
        # (T,V)->(T,P) interpolation (C06) from the volume-base ones, so that a pressure-base interface that hands out the wrong
        # tensor cannot vouch for itself
        from .c06 import oracle_v2p
        P_tv = numpy.asarray(calc.volume_base.pressures, float)
        desired = numpy.asarray(calc.pressure_base.p_array, float)

        def to_tp(arr_tv):
            with numpy.errstate(all="ignore"):
                return oracle_v2p(numpy.asarray(arr_tv, float), P_tv, desired)[0]
        for base, (kws, pattern, prop, factor, kind, bases), kw, _ in plan:
            if kind == "ij":
                store = getattr(calc, prop)            # the calculator's own (T,V) tensors
                for key in calc.modulus_keys:
                    p = tuple(int(x) for x in key.voigt)
                    arr = numpy.asarray(store[key])
                    expected[pattern.format(base=base, ij="%d%d" % p)] = (base, to_tp(arr) if base == "tp" else arr, factor, f"{prop}", p)
            elif prop == "volumes":
                expected[pattern.format(base=base)] = (base, to_tp(numpy.tile(numpy.asarray(calc.v_array, float), (P_tv.shape[0], 1))), factor, prop, None)
            else:
                arr = numpy.asarray(getattr(calc.volume_base, prop))
                expected[pattern.format(base=base)] = (base, to_tp(arr) if base == "tp" else arr, factor, prop, None)
        ctx.evaluation(f"write_output|alias-round-{alias_round}", (i, alias_round), sample={**sample, "files_written": len(written)})
        if written != set(expected):
            ctx.violation("file-set", f"files written {sorted(written - set(expected))[:5]} unexpected / {sorted(set(expected) - written)[:5]} missing "
                          f"(documented pattern x available components)", case_id, {"config": cfg})
        for fname, (base, arr, factor, prop, p) in expected.items():
            if fname not in written:
                continue
            cls = "modulus" if p else prop
            ok = check_file(ctx, os.path.join(outdir, fname), base, arr, factor, calc, qs, case_id, cls, {"file": fname, "config": cfg})
            ctx.evaluation(f"file|{cls}|{base}", (i, fname), nontrivial=ok)
            if p and ok:
                # adiabatic vs isothermal: decided against both in-memory tensors where they differ
                iface = calc.pressure_base if base == "tp" else calc.volume_base
                key = next(k for k in calc.modulus_keys if tuple(int(x) for x in k.voigt) == p)
                a_, t_ = numpy.asarray(iface.modulus_adiabatic[key])[:qs["NT"]], numpy.asarray(iface.modulus_isothermal[key])[:qs["NT"]]
                fin = numpy.isfinite(a_) & numpy.isfinite(t_)
                if fin.any() and numpy.abs(a_[fin] - t_[fin]).max() > 1e-6 * numpy.abs(a_[fin]).max():
                    ctx.count("adiabatic_vs_isothermal_decided")
        digests = {f: sha(os.path.join(outdir, f)) for f in written}

        # ---- aliases give byte-identical files; overrides are honoured -----------------------------------------------
        for base, (kws, pattern, prop, factor, kind, bases), kw, _ in plan:
            iface = calc.pressure_base if base == "tp" else calc.volume_base
            if kind == "ij" and i % 3:
                continue
            for other in kws:
                if other == kw:
                    continue
                d2 = os.path.join(wd, "alias")
                os.makedirs(d2, exist_ok=True)
                for f in os.listdir(d2):
                    os.unlink(os.path.join(d2, f))
                os.chdir(d2)
                try:
                    iface.write_variables([other])
                except Exception as exc:
                    os.chdir(wd)
                    ctx.violation(f"alias-raises:{other}:{type(exc).__name__}", f"keyword {other!r} ({base}): {exc_text(exc)}", case_id)
                    continue
                os.chdir(wd)
                ctx.evaluation(f"alias|{prop}", (i, base, other))
                got = {f: sha(os.path.join(d2, f)) for f in os.listdir(d2)}
                want = {f: h for f, h in digests.items() if f in got}
                if not got or set(got) - set(digests) or got != want:
                    ctx.violation(f"alias-differs:{prop}", f"keyword {other!r} ({base}) does not produce the same file(s) as {kw!r}: {sorted(got)[:3]}", case_id)
        # user-supplied file name and unit
        for base, (kws, pattern, prop, factor, kind, bases), kw, _ in plan:
            if kind == "ij":
                continue
            iface = calc.pressure_base if base == "tp" else calc.volume_base
            ukey = "GPa" if pattern.endswith("gpa.txt") else "km/s" if pattern.endswith("km_s.txt") else "A3"
            unit, ufac = UNIT_OVERRIDES[ukey][int(rng.integers(0, len(UNIT_OVERRIDES[ukey])))]
            d3 = os.path.join(wd, "override")
            os.makedirs(d3, exist_ok=True)
            for f in os.listdir(d3):
                os.unlink(os.path.join(d3, f))
            os.chdir(d3)
            fname = f"user_{prop}.dat"
            try:
                iface.write_variables([{"keyword": kws[-1], "fname": fname, "unit": unit}, {"keyword": kws[0], "unit": unit} if i % 2 else {"keyword": kws[0], "fname": "second.dat"}])
            except Exception as exc:
                os.chdir(wd)
                ctx.violation(f"override-raises:{type(exc).__name__}", f"{prop} ({base}) with fname/unit override: {exc_text(exc)}", case_id)
                continue
            os.chdir(wd)
            ctx.evaluation(f"override|{prop}", (i, base, unit))
            files = set(os.listdir(d3))
            want_files = {fname, pattern.format(base=base) if i % 2 else "second.dat"}
            if files != want_files:
                ctx.violation("override:file-name-not-honoured", f"{prop} ({base}): files {sorted(files)} instead of {sorted(want_files)}", case_id)
                continue
            check_file(ctx, os.path.join(d3, fname), base, numpy.asarray(getattr(iface, prop)), factor * ufac, calc, qs, case_id, f"unit-override:{ukey}",
                       {"file": fname, "unit": unit})

        # ---- the same through the real command (a few data sets) ------------------------------------------------------------
        if i % 6 == 0:
            d4 = os.path.join(wd, "cli")
            os.makedirs(d4)
            env = dict(os.environ, PYTHONPATH=f"{repo_dir()}:{os.environ.get('PYTHONPATH', '')}")
            p = subprocess.run([PY, "-c", "from cij.cli.cij import main; main()", "run", path], cwd=d4, env=env, capture_output=True, text=True, timeout=900)
            ctx.evaluation("cli-run", (i, "cli"), sample={"command": "cij run settings.yaml", "exit": p.returncode})
            if p.returncode != 0:
                ctx.violation("cli-run-fails", f"cij run exit {p.returncode}: {p.stderr[-1200:]}", case_id, {"config": cfg})
            else:
                got = {f: sha(os.path.join(d4, f)) for f in os.listdir(d4)}
                if got != digests:
                    diff = sorted(set(got) ^ set(digests))[:4] or [f for f in got if got[f] != digests[f]][:4]
                    ctx.violation("cli-run:files-differ-from-in-process", f"`cij run` wrote different files/content than write_output(): {diff}", case_id)
                ctx.count("cli_runs_compared")
