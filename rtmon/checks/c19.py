"""C19 - extract and extract-geotherm return table values faithfully."""
import os

import numpy

from ..e2e import E2E
from ..oracles import fileio as F
from ..oracles import laue
from ..workloads import files as WF
from ..trace import CallCounter
from ..runner import classify_exception, exc_site, exc_text

NAMES = ["c11s", "c12s", "c44s", "bm_VRH", "G_VRH", "v_p", "v_s", "v", "c11t", "bm_V", "G_R", "c66s", "G_V", "bm_R"]
# names that are prefixes of other table names (bm_V / bm_VRH, G_V / G_VRH, v / v_p / v_s): a directory produced by a real run holds
# all of them, so every scratch directory does too
FAMILY = ["bm_V", "bm_VRH", "bm_R", "G_V", "G_VRH", "G_R", "v", "v_p", "v_s"]
UNITFILE = {"v_p": "km_s", "v_s": "km_s", "v": "ang3"}


def smooth(rng):
    """A smooth f(T,P) with O(1) curvature in both directions."""
    a = rng.uniform(50, 900)
    c = rng.normal(size=8)

    def f(t, p):
        x, y = t / 2000.0, p / 100.0
        return a * (1 + 0.3 * c[0] * x + 0.8 * c[1] * y + 0.2 * c[2] * x * y + 0.15 * c[3] * x ** 2 + 0.4 * c[4] * y ** 2
                    + 0.1 * numpy.sin(2.0 * x + c[5]) * numpy.cos(1.5 * y + c[6]))
    return f


def write_tables(wd, names, funcs, t, p, style):
    for nm, f in zip(names, funcs):
        vals = f(t[:, None], p[None, :])
        path = os.path.join(wd, f"{nm}_tp_{UNITFILE.get(nm, 'gpa')}.txt")
        if style == "pandas":
            import pandas
            df = pandas.DataFrame(vals, index=t, columns=p)
            df.columns.name = "T(K)\\P(GPa)"
            with open(path, "w") as fp:
                fp.write(df.to_string(float_format=lambda x: "%.15e" % x))
        else:
            F.write_table(path, "T(K)\\P(GPa)", p, t, vals)


def parse_out(text, header=True):
    lines = [ln for ln in text.splitlines() if ln.strip()]
    head = lines[0].split() if header else None
    body = lines[1:] if header else lines
    arr = numpy.array([[float(x) for x in ln.split()] for ln in body])
    return head, arr


def close(a, b):
    a, b = numpy.asarray(a, float), numpy.asarray(b, float)
    with numpy.errstate(all="ignore"):
        return (numpy.abs(a - b) <= 1.5e-6 + 2e-6 * numpy.abs(b)) | (numpy.isnan(a) & numpy.isnan(b)) | (a == b)     # NaN / +-inf cells (adiabatic values where C_V<=0) must come back as they are


def run(ctx):
    cc = CallCounter().start()
    here = os.getcwd()
    try:
        with E2E(ctx, nonshear=False, tasks=False) as e2e:
            _extract(ctx, e2e)
            _geotherm(ctx, e2e)
            _real_outputs(ctx, e2e)
    finally:
        os.chdir(here)
        cc.stop()
    cc.report(ctx, ["extract.py:main", "extract.py:load_data", "geotherm.py:main", "geotherm.py:load_data", "geotherm.py:fit_data"])
    ctx.require("extract_values_compared", 100)
    ctx.require("geotherm_node_values_compared", 20)
    ctx.require("geotherm_refinement_sequences", 3)


def invoke(ctx, main, args, wd, case_id, what):
    from click.testing import CliRunner
    os.chdir(wd)
    try:
        with numpy.errstate(all="ignore"):
            res = CliRunner().invoke(main, args)
    finally:
        os.chdir("/")
    if res.exit_code != 0:
        err = "".join(__import__("traceback").format_exception(res.exception)) if res.exception else res.output
        ctx.violation(f"{what}-fails:{type(res.exception).__name__ if res.exception else 'exit'}", f"cij {what} {' '.join(args)}: exit {res.exit_code}\n{err[-1200:]}",
                      case_id, {"args": args})
        return None
    return res.stdout


def _extract(ctx, e2e):
    import cij.cli.extract
    n = ctx.pick(60, 24000)
    for i in range(n):
        case_id = f"extract{i}"
        if not ctx.mine(i, case_id):
            continue
        rng = ctx.rng("extract", i)
        nt, npz = int(rng.integers(2, 14)), int(rng.integers(2, 25))
        t = float(rng.choice([0, 10, 300])) + float(rng.choice([0.5, 50, 100, 250])) * numpy.arange(nt)
        dp_ = round(float(rng.uniform(0.1, 6)), 3)
        p0_ = [round(float(rng.uniform(-5, 20)), 2), 0.0, -dp_ * int(rng.integers(1, npz))][int(rng.integers(0, 3))]   # arbitrary / P_MIN = 0 / a zero node inside
        p = p0_ + dp_ * numpy.arange(npz)
        p[numpy.abs(p) < 1e-9 * dp_] = 0.0
        k = int(rng.integers(1, 6))
        names = [NAMES[int(j)] for j in rng.permutation(len(NAMES))[:k]]
        funcs = [smooth(rng) for _ in names]
        wd = e2e.workdir(case_id)
        # unrelated files that must not be picked up by the glob
        distract = [nm for nm in FAMILY if nm not in names] + [nm for nm in NAMES if nm not in names and nm not in FAMILY][:2]
        write_tables(wd, names + distract, funcs + [smooth(rng) for _ in distract], t, p, ["pandas", "oracle"][i % 2])
        by_t = bool(i % 2)
        axis, other = (t, p) if by_t else (p, t)
        where = ["on-grid", "between", "below-range", "above-range", "first-interval", "around-zero-node", "last-interval", "between"][(i // 2) % 8]
        if where == "around-zero-node" and not numpy.any(axis == 0):
            where = "first-interval"
        if where == "on-grid":
            y = float(axis[int(rng.integers(0, len(axis)))])
        elif where == "between":
            j = int(rng.integers(0, len(axis) - 1)) if len(axis) > 1 else 0
            frac = float(rng.choice([0.1, 0.3, 0.45, 0.55, 0.8]))
            y = float(axis[j] + frac * (axis[min(j + 1, len(axis) - 1)] - axis[j]))
        elif where in ("first-interval", "last-interval", "around-zero-node"):
            # the edges of the table and a node at exactly zero (T_MIN = 0, P_MIN = 0 are the usual grids): both halves of the interval
            j = 0 if where == "first-interval" else len(axis) - 2 if where == "last-interval" else int(numpy.argmax(axis == 0))
            up = (j + 1 < len(axis)) and (where != "around-zero-node" or j == 0 or rng.random() < 0.5)
            j2 = j + 1 if up else j - 1
            frac = float(rng.choice([0.04, 0.2, 0.4, 0.49, 0.51, 0.6, 0.96]))
            y = float(axis[j] + frac * (axis[j2] - axis[j]))
        elif where == "below-range":
            y = float(axis[0] - rng.uniform(1, 50))
        else:
            y = float(axis[-1] + rng.uniform(1, 50))
        order = [names[int(j)] for j in rng.permutation(k)]
        hide = bool((i // 8) % 2)
        args = ["-v", ",".join(order), "-T" if by_t else "-P", repr(y)] + (["-h"] if hide else [])
        out = invoke(ctx, cij.cli.extract.main, args, wd, case_id, "extract")
        cls = f"extract|{'-T' if by_t else '-P'}|{where}"
        ctx.evaluation(cls, (i, by_t, where, tuple(order)), sample={"variables": order, "option": "-T" if by_t else "-P", "requested": y, "grid_T": t[:4], "grid_P": p[:4]})
        if out is None:
            continue
        try:
            head, arr = parse_out(out, header=not hide)
        except Exception as exc:
            ctx.violation("extract:unparsable", f"{exc!r}\n{out[:300]}", case_id, {"args": args})
            continue
        jn = int(numpy.argmin(numpy.abs(axis - y)))          # the oracle's own nearest search
        data = {"args": args, "T": t, "P": p}
        if not hide and head != order:
            ctx.violation("extract:column-order", f"columns {head}, requested {order}", case_id, data)
            continue
        if arr.shape != (len(other), k + 1):
            ctx.violation("extract:shape", f"{arr.shape[0]} rows x {arr.shape[1] - 1} variables; expected {len(other)} x {k}", case_id, data)
            continue
        if not numpy.all(close(arr[:, 0], other)):
            ctx.violation(f"extract:labels:{'-T' if by_t else '-P'}", f"rows labelled {arr[:3, 0]}, expected the {'pressures' if by_t else 'temperatures'} {other[:3]}", case_id, data)
            continue
        for c, nm in enumerate(order):
            f = funcs[names.index(nm)]
            want = f(t[jn], other) if by_t else f(other, p[jn])
            ctx.count("extract_values_compared", len(want))
            if not numpy.all(close(arr[:, c + 1], want)):
                # which row/column did it print instead?
                alt = None
                for j2 in range(len(axis)):
                    w2 = f(t[j2], other) if by_t else f(other, p[j2])
                    if numpy.all(close(arr[:, c + 1], w2)):
                        alt = j2
                ctx.violation(f"extract:wrong-{'row' if by_t else 'column'}:{where}",
                              f"{nm}: requested {'T' if by_t else 'P'}={y}, nearest grid value {axis[jn]} (index {jn}); printed values "
                              f"{'belong to index ' + str(alt) if alt is not None else 'match no row/column of the table'}", case_id, data)
                break


def _geotherm(ctx, e2e):
    import cij.cli.geotherm
    n = ctx.pick(24, 6000)
    for i in range(n):
        case_id = f"geo{i}"
        if not ctx.mine(10 ** 5 + i, case_id):
            continue
        rng = ctx.rng("geo", i)
        k = int(rng.integers(1, 4))
        pool = FAMILY if i % 2 else NAMES
        names = [pool[int(j)] for j in rng.permutation(len(pool))[:k]]
        funcs = [smooth(rng) for _ in names]
        t_lo, t_hi = 300.0, 300.0 + float(rng.choice([1500, 2400]))
        p_lo, p_hi = 0.0, float(rng.choice([30, 120]))
        nt0, np0 = int(rng.integers(5, 9)), int(rng.integers(5, 10))
        npts = int(rng.integers(3, 15))
        errs = []
        ok = True
        for level, mult in enumerate((1, 2, 4)):
            t = numpy.linspace(t_lo, t_hi, (nt0 - 1) * mult + 1)
            p = numpy.linspace(p_lo, p_hi, (np0 - 1) * mult + 1)
            wd = e2e.workdir(f"{case_id}-L{level}")
            others = [nm for nm in FAMILY if nm not in names]
            write_tables(wd, names + others, funcs + [smooth(ctx.rng("geo-distract", i, nm)) for nm in others], t, p, ["pandas", "oracle"][i % 2])
            # geotherm: nodes of the coarse grid (present at every level) and points in between
            rg = ctx.rng("geo-path", i)
            jt, jp = rg.integers(0, nt0, size=npts), rg.integers(0, np0, size=npts)
            tc, pc = numpy.linspace(t_lo, t_hi, nt0), numpy.linspace(p_lo, p_hi, np0)
            on_node = rg.random(npts) < 0.5
            gt = numpy.where(on_node, tc[jt], rg.uniform(t_lo, t_hi, npts))
            int_cls = ["none", "T", "T+P", "P"][(i // 2) % 4]     # which columns hold whole numbers only (written as people type them: 25 2000)
            if "T" in int_cls:
                gt = numpy.round(gt)               # every temperature of this geotherm is a whole number of kelvin
                on_node = on_node & (gt == tc[jt])   # a node temperature that is not integral is no longer on the node
            gp = numpy.where(on_node, pc[jp], rg.uniform(p_lo, p_hi, npts))
            if "P" in int_cls:
                gp = numpy.round(gp)
                on_node = on_node & (gp == pc[jp])
            depth = numpy.round(rg.uniform(0, 2900, npts), 1)
            gpath = os.path.join(wd, "geotherm.txt")
            cols = [("P", gp), ("D", depth), ("T", gt)] if i % 2 else [("T", gt), ("P", gp)]
            if (i // 3) % 2:
                # a geotherm file may carry further columns, some named almost like the coordinates (T_hot, T(C), P_lith ...): they
                # are passed through like D and never used as coordinates, wherever they stand
                extra_c = [("T_hot", numpy.round(gt + rg.uniform(150, 400, npts), 2)), ("T(C)", numpy.round(gt - 273.15, 2)),
                           ("P_lith", numpy.round(gp * 1.07 + 0.3, 3)), ("Temp", numpy.round(gt * 0.5, 1)), ("Pv", numpy.round(gp + 5.0, 2))]
                pick_ = [extra_c[int(j_)] for j_ in rg.permutation(len(extra_c))[: int(rg.integers(1, 4))]]
                cols = (pick_ + cols) if (i // 6) % 2 else (cols[:1] + pick_ + cols[1:])
            with open(gpath, "w") as fp:
                fp.write(" ".join(c for c, _ in cols) + "\n")
                as_int = int_cls != "none"          # integral values written as integer literals (1500, not 1500.0)
                for r in range(npts):
                    fp.write(" ".join((str(int(v[r])) if as_int and float(v[r]).is_integer() else repr(float(v[r]))) for _, v in cols) + "\n")
            args = ["-g", "geotherm.txt", "-v", ",".join(names)]
            out = invoke(ctx, cij.cli.geotherm.main, args, wd, case_id, "extract-geotherm")
            ctx.evaluation(f"geotherm|refinement-x{mult}|integer-literals:{int_cls}", (i, mult), sample={"variables": names, "grid": [len(t), len(p)], "path_points": npts,
                                                                                 "path_head": {"T": gt[:3], "P": gp[:3]}})
            if out is None:
                ok = False
                break
            try:
                head, arr = parse_out(out)
            except Exception as exc:
                ctx.violation("geotherm:unparsable", f"{exc!r}\n{out[:300]}", case_id)
                ok = False
                break
            want_head = [c for c, _ in cols] + names
            if head != want_head or arr.shape != (npts, len(want_head)):
                ctx.violation("geotherm:columns", f"columns {head} shape {arr.shape}; expected {want_head} x {npts} rows", case_id)
                ok = False
                break
            for c, (cn, v) in enumerate(cols):
                if not numpy.all(close(arr[:, c], v)):
                    ctx.violation("geotherm:own-columns-changed", f"geotherm column {cn} printed as {arr[:3, c]} instead of {v[:3]}", case_id)
                    ok = False
            worst = 0.0
            for c, nm in enumerate(names):
                f = funcs[c]
                truth = f(gt, gp)
                got = arr[:, len(cols) + c]
                scale = numpy.abs(truth).max()
                if on_node.any():
                    ctx.count("geotherm_node_values_compared", int(on_node.sum()))
                    if not numpy.all(close(got[on_node], truth[on_node])):
                        j = int(numpy.argmax(numpy.abs(got - truth) * on_node))
                        ctx.violation("geotherm:node-value", f"{nm} at grid node (T={gt[j]}, P={gp[j]}): {got[j]} instead of the table entry {truth[j]:.6f}", case_id,
                                      {"level": mult})
                        ok = False
                if (~on_node).any():
                    worst = max(worst, (numpy.abs(got - truth)[~on_node] / scale).max())
            errs.append(worst)
        if not ok or len(errs) < 3:
            continue
        ctx.count("geotherm_refinement_sequences")
        floor = 3e-6
        ctx.maxi("geotherm_coarse_error", errs[0])
        if errs[0] > 0.02:
            ctx.violation("geotherm:off-node-error-too-large", f"between nodes the value misses the smooth function by {errs[0]:.3g} (relative) on the coarse grid", case_id)
        for a, b, lv in ((errs[0], errs[1], "x2"), (errs[1], errs[2], "x4")):
            if b > a / 2 + floor:
                ctx.violation("geotherm:no-convergence", f"refining the grid ({lv}) does not reduce the off-node error: {a:.3g} -> {b:.3g}", case_id, {"errors": errs})
                break
        if errs[2] > 1e-3 + floor:
            ctx.violation("geotherm:final-error", f"error after two refinements still {errs[2]:.3g}", case_id, {"errors": errs})


def _real_outputs(ctx, e2e):
    """Tables produced by the real writer (as in C15), read back through extract."""
    import cij.cli.extract
    n = ctx.pick(3, 300)
    for i in range(n):
        case_id = f"real{i}"
        if not ctx.mine(2 * 10 ** 5 + i, case_id):
            continue
        rng = ctx.rng("real", i)
        ds = WF.gen_dataset(rng, system=laue.SYSTEMS[i % 9], nq=2, natoms=2)
        cfg = WF.gen_settings(rng, ds, interpolator="lsq_poly", nt=int(rng.integers(3, 8)), ntv=int(rng.integers(8, 20)))
        wd = e2e.workdir(case_id)
        WF.write_dataset(ds, cfg, wd)
        try:
            p_lo, p_hi, _ = WF.probe_pressure_range(ds, cfg, wd)
        except Exception as exc:
            ctx.inconc(f"QHA probe failed: {exc!r}")
            continue
        if not (p_hi - p_lo > 1.0):
            continue
        WF.place_pressures(rng, cfg, p_lo, p_hi)
        cfg["output"] = {"pressure_base": ["cij", "bm_VRH", "G_VRH", "vp", "vs", "v"]}
        path = WF.write_dataset(ds, cfg, wd)
        calc, exc = e2e.run(path, case_id)
        if exc is not None:
            e2e.report_construction_failure(exc, case_id, "real-output-run")
            continue
        od = os.path.join(wd, "out")
        os.makedirs(od)
        os.chdir(od)
        try:
            calc.write_output()
        finally:
            os.chdir("/")
        qs = cfg["qha"]["settings"]
        variables = ["c11s", "bm_VRH", "v_p", "v"]
        tables = {}
        for v in variables:
            fn = [f for f in os.listdir(od) if f.startswith(v + "_tp_")][0]
            tables[v] = F.read_table(os.path.join(od, fn))
        tq = qs["T_MIN"] + qs["DT"] * (int(rng.integers(0, qs["NT"])) + 0.3)
        out = invoke(ctx, cij.cli.extract.main, ["-v", ",".join(variables), "-T", repr(float(tq))], od, case_id, "extract")
        ctx.evaluation("extract|real-output-tables", (i,), sample={"variables": variables, "T": tq})
        if out is None:
            continue
        head, arr = parse_out(out)
        for c, v in enumerate(variables):
            corner, cols, rows, vals = tables[v]
            jn = int(numpy.argmin(numpy.abs(rows - tq)))
            ctx.count("extract_values_compared", len(cols))
            if arr.shape[0] != len(cols) or not numpy.all(close(arr[:, c + 1], vals[jn])) or not numpy.all(close(arr[:, 0], cols)):
                ctx.violation("extract:real-output-table", f"{v}: extract -T {tq} does not reproduce row T={rows[jn]} of the written table", case_id)
                break
