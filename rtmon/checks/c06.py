"""C06 - (T,V) -> (T,P) conversion evaluates each quantity at the volume where P(T,V) = P."""
import numpy

from ..e2e import E2E
from ..oracles import laue
from ..oracles import tensor as T
from ..oracles import units as U
from ..workloads import files as WF
from ..trace import CallCounter
from ..runner import classify_exception, exc_site, exc_text

TOL = 1e-8


def neville(x, xs, ys):
    """Value at x of the polynomial through (xs, ys) - Neville's scheme."""
    p = [float(y) for y in ys]
    n = len(xs)
    for m in range(1, n):
        for i in range(n - m):
            p[i] = ((x - xs[i + m]) * p[i] + (xs[i] - x) * p[i + 1]) / (xs[i] - xs[i + m])
    return p[0]


def oracle_v2p(f_tv, p_tv, desired):
    """Own conversion: bracket by bisection on the isotherm, four nodes clip(j-1,0,n-4)..+3, cubic through them.
    Returns (values, local scale, is_end_bracket)."""
    nt, nv = f_tv.shape
    out = numpy.empty((nt, len(desired)))
    scale = numpy.empty_like(out)
    ends = numpy.zeros_like(out, dtype=bool)
    for i in range(nt):
        p = p_tv[i]
        for k, pd in enumerate(desired):
            lo, hi = 0, nv - 1
            while hi - lo > 1:                    # p increasing along the grid
                mid = (lo + hi) // 2
                if p[mid] <= pd:
                    lo = mid
                else:
                    hi = mid
            j0 = min(max(lo - 1, 0), nv - 4)
            idx = [j0, j0 + 1, j0 + 2, j0 + 3]
            out[i, k] = neville(pd, p[idx], f_tv[i, idx])
            scale[i, k] = numpy.abs(f_tv[i, idx]).max() + 1e-300
            ends[i, k] = lo - 1 < 0 or lo - 1 > nv - 4
    return out, scale, ends


def run(ctx):
    cc = CallCounter().start()
    try:
        with E2E(ctx, nonshear=False, tasks=False) as e2e:
            _conversions(ctx, e2e)
            _range_check(ctx, e2e)
    finally:
        cc.stop()
    cc.report(ctx, ["calculator.py:CijPressureBaseInterface.v2p", "calculator.py:CijPressureBaseInterface.__getattr__",
                    "calculator.py:CijPressureBaseModulusInterface.__getitem__", "qha_adapter.py:QHACalculator.desired_pressure_status",
                    "qha_adapter.py:QHAPressureBaseInterface.p_array", "qha_adapter.py:QHAPressureBaseInterface.volumes"])
    ctx.require("v2p_calls_judged", 30)
    ctx.require("v2p_input_fields_checked", 10)
    ctx.require("range_refusals_observed", 3)
    ctx.require("range_acceptances_observed", 3)


def build(ctx, e2e, rng, i, case_id, inside=True, ntv=None):
    system = laue.SYSTEMS[i % 9]
    # E(V) that no cubic in finite strain reproduces for half of the data sets; the QHA layer's EoS order is the documented
    # `order` (any number >= 2), and every sixth data set is a static-only run (no vibrational free energy in the QHA layer)
    ds = WF.gen_dataset(rng, system=system, nq=int(rng.integers(1, 4)), natoms=int(rng.integers(1, 4)), components="needed",
                        energy_class="noncubic" if i % 2 else "bm3", nv=int(rng.integers(7, 13)) if i % 2 else None)
    cfg = WF.gen_settings(rng, ds, interpolator="lsq_poly", nt=int(rng.integers(2, 8)), ntv=ntv or int(rng.integers(8, 61)),
                          eos_order=[3, 4, 3, 5, 3, 2][i % 6] if ds.nv > 6 else 3)
    if i % 6 == 5:
        cfg["qha"]["settings"]["static_only"] = True
    wd = e2e.workdir(case_id)
    WF.write_dataset(ds, cfg, wd)
    p_lo, p_hi, _ = WF.probe_pressure_range(ds, cfg, wd)
    if not (p_hi - p_lo > 1.0):
        return None
    return ds, cfg, wd, p_lo, p_hi


def _conversions(ctx, e2e):
    n = ctx.pick(24, 8000)
    for i in range(n):
        case_id = f"conv{i}"
        if not ctx.mine(i, case_id):
            continue
        rng = ctx.rng("conv", i)
        try:
            b = build(ctx, e2e, rng, i, case_id)
        except Exception as exc:
            ctx.inconc(f"data set preparation failed: {exc!r}")
            continue
        if b is None:
            ctx.count("generator_skips")
            continue
        ds, cfg, wd, p_lo, p_hi = b
        WF.place_pressures(rng, cfg, p_lo, p_hi, inside=True, margin=float(rng.choice([0.0, 0.02, 0.2])) if i % 4 == 0 else 0.02)
        path = WF.write_dataset(ds, cfg, wd)
        calc, exc = e2e.run(path, case_id)
        qs = cfg["qha"]["settings"]
        sample = {"system": ds.system, "NT": qs["NT"], "NTV": qs["NTV"], "P_MIN": qs["P_MIN"], "DELTA_P": qs["DELTA_P"], "computed_range_gpa": [p_lo, p_hi],
                  "eos_order": qs["order"], "static_only": qs["static_only"], "E(V)": ds.energy_class}
        if exc is not None:
            ctx.evaluation("conversion-run", (i,), sample=sample)
            e2e.report_construction_failure(exc, case_id, "in-range-pressures", {"config": cfg})
            continue
        vb, pb = calc.volume_base, calc.pressure_base
        P = numpy.asarray(vb.pressures, float)
        desired = numpy.asarray(pb.p_array, float)
        nt, ntv = P.shape
        want_p = U.gpa_to_au(qs["P_MIN"] + qs["DELTA_P"] * numpy.arange(qs["NTV"]))
        if desired.shape != (qs["NTV"],) or numpy.abs(desired - want_p).max() > 1e-7 * numpy.abs(want_p).max():
            ctx.violation("requested-pressure-grid", f"p_array {desired[:3]} != P_MIN + j DELTA_P (a.u.) {want_p[:3]}", case_id, sample)
        if not numpy.all(numpy.diff(P, axis=1) > 0):
            ctx.count("nonmonotonic_isotherm_skipped")
            continue
        e2e.obs["v2p"] = []
        quantities = []
        for key in calc.modulus_keys:
            a, b_ = (int(x) for x in key.voigt)
            quantities.append((f"c{a}{b_}s", lambda k=key: pb.modulus_adiabatic[k], numpy.asarray(calc.modulus_adiabatic[key])))
            quantities.append((f"c{a}{b_}t", lambda k=key: pb.modulus_isothermal[k], numpy.asarray(calc.modulus_isothermal[key])))
        for nm in ("bulk_modulus_voigt", "bulk_modulus_reuss", "bulk_modulus_voigt_reuss_hill", "shear_modulus_voigt", "shear_modulus_reuss",
                   "shear_modulus_voigt_reuss_hill", "primary_velocities", "secondary_velocities"):
            quantities.append((nm, lambda nm=nm: getattr(pb, nm), numpy.asarray(getattr(vb, nm))))
        for key in list(calc._compliances)[:6]:
            a, b_ = (int(x) for x in key.voigt)
            quantities.append((f"s{a}{b_}", lambda a=a, b_=b_: getattr(pb, f"s{a}{b_}"), numpy.asarray(calc._compliances[key])))
        k0 = calc.modulus_keys[0]
        a, b_ = (int(x) for x in k0.voigt)
        quantities.append((f"attr:c{a}{b_}", lambda: getattr(pb, f"c{a}{b_}"), numpy.asarray(calc.modulus_adiabatic[k0])))
        quantities.append((f"attr:c{a}{b_}t", lambda: getattr(pb, f"c{a}{b_}t"), numpy.asarray(calc.modulus_isothermal[k0])))
        quantities.append(("pressures(identity)", lambda: pb.v2p(vb.pressures), P))
        for nm, getter, f_tv in quantities:
            before = len(e2e.obs["v2p"])
            try:
                got = numpy.asarray(getter())
            except Exception as exc:
                if classify_exception(exc) == "code":
                    ctx.violation(f"conversion-raises:{nm.split(':')[0] if nm.startswith('attr') else 'quantity'}:{type(exc).__name__}",
                                  f"pressure_base {nm}: {exc_text(exc)}", case_id, sample)
                else:
                    ctx.harness_error("C06.getter", exc)
                continue
            calls = e2e.obs["v2p"][before:]
            qcls = "modulus" if nm[0] == "c" and nm[1].isdigit() else "compliance" if nm[0] == "s" and nm[1].isdigit() else nm.split("(")[0]
            if len(calls) == 1:
                fin, fout = calls[0]
                ctx.count("v2p_input_fields_checked")
                if not numpy.array_equal(fin, f_tv, equal_nan=True):
                    ctx.violation(f"wrong-input-field:{qcls}", f"{nm}: the field handed to the conversion is not the volume-base {nm}", case_id, sample)
                    continue
            else:
                # no conversion observed for this read (a memoised table) or several: the value is still judged below
                ctx.count("reads_with_%d_v2p_events" % len(calls))
            if got.shape != (nt, len(desired)):
                ctx.violation(f"shape:{qcls}", f"{nm}: shape {got.shape}, expected {(nt, len(desired))}", case_id, sample)
                continue
            with numpy.errstate(all="ignore"):
                ref, scale, ends = oracle_v2p(f_tv, P, desired)
            fin_ok = numpy.isfinite(ref)          # stencils touching a non-finite input (e.g. adiabatic value where C_V<=0) are not judged
            if not fin_ok.any():
                ctx.count("v2p_calls_without_finite_points")
                continue
            err = numpy.where(fin_ok, numpy.abs(got - ref) / scale, 0.0)
            if numpy.any(~numpy.isfinite(got) & fin_ok):
                ctx.violation(f"value:{qcls}:non-finite-output", f"{nm}: conversion returned a non-finite value although the four nodes are finite", case_id, sample)
                continue
            varies = numpy.ptp(f_tv, axis=1).max() > 1e-6 * numpy.abs(f_tv).max()
            ctx.count("v2p_calls_judged")
            ctx.count("v2p_points_judged", err.size)
            ctx.count("v2p_end_bracket_points", int(ends.sum()))
            ctx.maxi("v2p_err/tol", err.max() / TOL)
            ctx.evaluation(f"conversion|{qcls}", (i, nm), nontrivial=bool(varies))
            if not (err.max() <= TOL):
                j = numpy.unravel_index(int(numpy.argmax(err)), err.shape)
                # diagnose: transposed? shifted bracket?
                ctx.violation(f"value:{qcls}:{'end-bracket' if ends[j] else 'interior'}",
                              f"{nm} at (T index {j[0]}, P = {U.au_to_gpa(desired[j[1]]):.4g} GPa): {got[j]!r}, value on the isotherm at P(T,V)=P is {ref[j]!r}",
                              case_id, sample)
            if nm == "pressures(identity)":
                e2 = numpy.abs(got - desired[None, :]).max() / numpy.abs(desired).max()
                ctx.maxi("identity_err/tol", e2 / 1e-10)
                if e2 > 1e-10:
                    ctx.violation("identity:converting-P-does-not-return-requested-P", f"v2p(P)(T,P) deviates from P by {e2:.3g} (relative)", case_id, sample)
        # ---- V(T,P) ----------------------------------------------------------------------------------------
        try:
            vol = numpy.asarray(pb.volumes, float)
        except Exception as exc:
            ctx.violation(f"volumes-raises:{type(exc).__name__}", exc_text(exc), case_id, sample)
            continue
        v = numpy.asarray(vb.v_array, float)
        ctx.evaluation("conversion|volumes", (i, "V"), sample=sample)
        if vol.shape != (nt, len(desired)) or nt != qs["NT"] + 4:
            ctx.violation("volumes:shape", f"V(T,P) has shape {vol.shape}; expected ({qs['NT'] + 4},{qs['NTV']})", case_id, sample)
            continue
        if not numpy.all(numpy.diff(vol, axis=1) < 0):
            ctx.violation("volumes:not-decreasing-with-P", "V(T,P) is not strictly decreasing along P", case_id, sample)
        ref, scale, _ = oracle_v2p(numpy.tile(v, (nt, 1)), P, desired)
        err = numpy.abs(vol - ref) / scale
        ctx.maxi("volume_err/tol", err.max() / TOL)
        if not (err.max() <= TOL):
            ctx.violation("volumes:value", f"V(T,P) differs from the volume at which P(T,V)=P by {err.max():.3g} (relative)", case_id, sample)
        # P(T, V(T,P)) = P by the oracle's own interpolation in V (interpolation accuracy: O(h^4) of the isotherm)
        back = numpy.empty_like(vol)
        for r in range(nt):
            for c in range(len(desired)):
                j = int(numpy.searchsorted(-v, -vol[r, c])) - 1            # v decreasing
                j0 = min(max(j - 1, 0), ntv - 4)
                idx = [j0, j0 + 1, j0 + 2, j0 + 3]
                back[r, c] = neville(vol[r, c], v[idx], P[r, idx])
        span = numpy.abs(numpy.diff(P, axis=1)).max()
        e3 = numpy.abs(back - desired[None, :]).max() / span
        ctx.maxi("P(T,V(T,P))-P over one grid step", e3)
        if e3 > 0.25:
            ctx.violation("volumes:P(V(T,P))!=P", f"P(T,V(T,P)) misses P by {e3:.3g} grid steps of pressure", case_id, sample)
        if i % 2 == 0:
            recheck_after_writing(ctx, e2e, calc, cfg, wd, case_id, sample)
        # ---- history: the same files with the same pressure grid and grid shape but another temperature grid, in the same process:
        #      P(T,V) is different, so brackets and weights of the first conversion must not be reused
        if i % 3 == 0:
            import copy
            cfg2 = copy.deepcopy(cfg)
            q2 = cfg2["qha"]["settings"]
            q2["T_MIN"] = float(q2["T_MIN"]) + float(q2["DT"]) * 0.5 + 37.0
            path2 = WF.write_dataset(ds, cfg2, wd, settings_name="settings2.yaml")
            calc2, exc2 = e2e.run(path2, case_id + "-shifted-T")
            if exc2 is None:
                vb2, pb2 = calc2.volume_base, calc2.pressure_base
                P2 = numpy.asarray(vb2.pressures, float)
                des2 = numpy.asarray(pb2.p_array, float)
                # the shifted temperatures move the reachable range: only grids that stay inside it at every T are converted
                # (below the range the QHA layer fails with its own error; C06 speaks about the upper end only)
                if not (des2.min() > P2[:, 0].max() and des2.max() < P2[:, -1].min()):
                    ctx.count("second_calculation_grid_outside_range_skipped")
                elif numpy.all(numpy.diff(P2, axis=1) > 0):
                    k0 = calc2.modulus_keys[0]
                    for nm, got, f_tv in (("pressures(identity)", numpy.asarray(pb2.v2p(vb2.pressures)), P2),
                                          ("modulus", numpy.asarray(pb2.modulus_isothermal[k0]), numpy.asarray(calc2.modulus_isothermal[k0])),
                                          ("bulk_modulus_voigt", numpy.asarray(pb2.bulk_modulus_voigt), numpy.asarray(vb2.bulk_modulus_voigt))):
                        with numpy.errstate(all="ignore"):
                            ref, scale, _ = oracle_v2p(f_tv, P2, des2)
                        fin = numpy.isfinite(ref)
                        ctx.evaluation("history|second-calculation-same-pressure-grid", (i, nm))
                        if fin.any() and not (numpy.abs(got - ref)[fin] / scale[fin]).max() <= TOL:
                            ctx.violation(f"history:second-calculation:{nm.split('(')[0]}", f"second calculation in the process (same pressure grid, other T grid): {nm} is not the "
                                          f"value at P(T,V)=P (max deviation {(numpy.abs(got - ref)[fin] / scale[fin]).max():.3g} of the local scale)", case_id, sample)
            elif not (isinstance(exc2, ValueError) and "PRESSURE" in str(exc2).upper()):
                e2e.report_construction_failure(exc2, case_id, "second-calculation", {"config": cfg2})


def recheck_after_writing(ctx, e2e, calc, cfg, wd, case_id, sample):
    """History: writing every table (including p and v, whose arrays are held by the QHA layer) and then reading again."""
    import os
    vb, pb = calc.volume_base, calc.pressure_base
    P0 = numpy.array(vb.pressures, copy=True)
    V0 = numpy.array(pb.volumes, copy=True)
    od = os.path.join(wd, "c06-out")
    os.makedirs(od, exist_ok=True)
    here = os.getcwd()
    try:
        os.chdir(od)
        pb.write_variables(["cij", "bm_VRH", "vp", "v"])
        vb.write_variables(["p", "cij_t", "G_VRH"])
        if len(os.listdir(od)) > 3:
            pb.write_variables(["v"])
    except Exception as exc:
        os.chdir(here)
        if classify_exception(exc) == "code":
            ctx.violation(f"write-raises:{type(exc).__name__}:{exc_site(exc)}", exc_text(exc), case_id, sample)
        else:
            ctx.harness_error("C06.write", exc)
        return
    finally:
        os.chdir(here)
    ctx.evaluation("history|write-then-read", (case_id, "w"))
    P1, V1 = numpy.asarray(vb.pressures), numpy.asarray(pb.volumes)
    if not numpy.array_equal(P0, P1, equal_nan=True):
        ctx.violation("history:P(T,V)-changes-after-writing", f"volume_base.pressures differs after the tables were written (ratio {numpy.nanmedian(P1 / P0):.6g})", case_id, sample)
    if not numpy.array_equal(V0, V1, equal_nan=True):
        ctx.violation("history:V(T,P)-changes-after-writing", f"pressure_base.volumes differs after the tables were written (ratio {numpy.nanmedian(V1 / V0):.6g})", case_id, sample)
    desired = numpy.asarray(pb.p_array, float)
    got = numpy.asarray(pb.v2p(vb.pressures))
    e2 = numpy.abs(got - desired[None, :]).max() / numpy.abs(desired).max()
    if not (e2 <= 1e-10):
        ctx.violation("history:identity-broken-after-writing", f"after writing, v2p(P)(T,P) deviates from P by {e2:.3g}", case_id, sample)
    k0 = calc.modulus_keys[0]
    ref, scale, _ = oracle_v2p(numpy.asarray(calc.modulus_isothermal[k0]), P0, desired)
    got = numpy.asarray(pb.modulus_isothermal[k0])
    fin = numpy.isfinite(ref)
    if fin.any() and not (numpy.abs(got - ref)[fin] / scale[fin]).max() <= TOL:
        ctx.violation("history:conversion-wrong-after-writing", "a modulus converted after the tables were written is no longer the value at P(T,V)=P", case_id, sample)


def _range_check(ctx, e2e):
    n = ctx.pick(32, 4000)
    for i in range(n):
        case_id = f"range{i}"
        if not ctx.mine(10 ** 6 + i, case_id):
            continue
        rng = ctx.rng("range", i)
        try:
            b = build(ctx, e2e, rng, i, case_id, ntv=int(rng.integers(8, 31)))
        except Exception as exc:
            ctx.inconc(f"data set preparation failed: {exc!r}")
            continue
        if b is None:
            continue
        ds, cfg, wd, p_lo, p_hi = b
        qs = cfg["qha"]["settings"]
        overshoot = bool(i % 2)
        lo = p_lo + (p_hi - p_lo) * 0.1
        if overshoot:
            top = p_hi + max(abs(p_hi), 1.0) * float(rng.choice([0.01, 0.05, 0.3, 1.0, 3.0]))
        else:
            top = p_hi - max(abs(p_hi - lo), 1.0) * float(rng.choice([0.01, 0.05, 0.3]))
        qs["P_MIN"] = float(lo)
        qs["DELTA_P"] = float((top - lo) / (qs["NTV"] - 1))
        qs["DELTA_P_SAMPLE"] = qs["DELTA_P"]
        path = WF.write_dataset(ds, cfg, wd)
        calc, exc = e2e.run(path, case_id)
        nv2p = len(e2e.obs.get("v2p", []))
        sample = {"top_requested_gpa": top, "reachable_at_every_T_gpa": p_hi, "expect": "ValueError" if overshoot else "accepted"}
        ctx.evaluation("overshoot" if overshoot else "inside", (i, top, p_hi), sample=sample)
        if overshoot:
            if exc is None:
                ctx.violation("range-check:overshoot-accepted", f"top pressure {top:.4g} GPa > reachable {p_hi:.4g} GPa but the calculation was accepted", case_id,
                              {"config": cfg, **sample})
            elif not isinstance(exc, ValueError):
                ctx.violation(f"range-check:wrong-error:{type(exc).__name__}", f"overshoot raised {exc!r} instead of ValueError\n{exc_text(exc)}", case_id, {"config": cfg})
            else:
                ctx.count("range_refusals_observed")
                if nv2p:
                    ctx.violation("range-check:conversion-before-rejection", f"{nv2p} conversions happened before the grid was rejected", case_id)
        else:
            if exc is not None:
                if isinstance(exc, ValueError) and "PRESSURE" in str(exc).upper():
                    ctx.violation("range-check:inside-rejected", f"top pressure {top:.4g} GPa < reachable {p_hi:.4g} GPa but rejected: {exc}", case_id, {"config": cfg})
                else:
                    e2e.report_construction_failure(exc, case_id, "inside-range", {"config": cfg})
            else:
                ctx.count("range_acceptances_observed")
