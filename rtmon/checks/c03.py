"""C03 - the shear solver is exact tensor algebra (driven directly, spy dictionaries)."""
import itertools

import numpy

from ..oracles import tensor as T
from ..trace import CallCounter
from ..runner import classify_exception, exc_site, exc_text

TOL = 1e-12


class TargetRead(Exception):
    pass


class Spy(dict):
    """Behaviour-preserving dict that logs every key read and refuses the target."""

    def __init__(self, data, target, log):
        super().__init__(data)
        self._target, self._log = target, log

    def __getitem__(self, k):
        self._log.append(k)
        if k == self._target:
            raise TargetRead(repr(k))
        return super().__getitem__(k)


def comp(C, key):
    i, j, k, l = (int(x) for x in key.standard)
    return C[..., i - 1, j - 1, k - 1, l - 1]


def run(ctx):
    cc = CallCounter().start()
    try:
        _run(ctx)
    finally:
        cc.stop()
    cc.report(ctx, ["shear.py:calculate_fictitious_strain_energy", "shear.py:get_fictitious_strain_energy_keys",
                    "shear.py:ShearElasticModulusPhononContribution.get_target_elastic_modulus",
                    "shear.py:ShearElasticModulusPhononContribution.transformation_matrix",
                    "shear.py:ShearElasticModulusPhononContribution.strain_rotated",
                    "voigt.py:ModulusRepresentation.multiplicity"])


def solve(ctx, obj, key, C, Tm, case_id, cls, tag):
    """Run the real solver on tensor (field) C with spies; return (value, reads, reads_rot) or None."""
    Cr = T.rotate(C, Tm)
    reads, reads_r = [], []
    keys = obj.get_modulus_keys()
    keys_r = obj.get_modulus_keys_rotated()
    obj.modulus = Spy({k: comp(C, k) for k in keys}, key, reads)
    obj.modulus_rotated = Spy({k: comp(Cr, k) for k in keys_r}, None, reads_r)
    try:
        val = obj.get_target_elastic_modulus()
    except TargetRead as exc:
        ctx.violation(f"target-read:{tag}", f"solver for {key!r} read its own target {exc}", case_id, {"key": repr(key)})
        return None
    except KeyError as exc:
        ctx.violation(f"unadvertised-key:{tag}", f"solver for {key!r} asked for {exc} which it did not advertise", case_id,
                      {"key": repr(key)})
        return None
    except Exception as exc:
        if classify_exception(exc) == "code":
            ctx.violation(f"raises:{exc_site(exc)}:{type(exc).__name__}", f"solver for {key!r} raised\n{exc_text(exc)}",
                          case_id, {"key": repr(key)})
        else:
            ctx.harness_error("C03.solve", exc)
        return None
    ctx.count("solver_executions")
    return val, reads, reads_r, keys, keys_r


def _run(ctx):
    from cij.core.phonon_contribution.shear import ShearElasticModulusPhononContribution as Shear
    from cij.util import c_

    shear_pairs = [(a, b) for a, b in T.VOIGT21 if T.classify(a, b) == "shear"]
    assert len(shear_pairs) == 15
    nrand = ctx.pick(20, 40000)
    nlin = ctx.pick(14, 10000)
    nstrain = ctx.pick(8, 3000)

    for ik, (a, b) in enumerate(shear_pairs):
        if not ctx.mine(ik, f"key{a}{b}"):
            continue
        key = c_(a, b)
        tag = f"c{a}{b}"
        case_id = f"key{a}{b}"
        rng = ctx.rng("key", a, b)
        strain = rng.uniform(0.05, 0.9, size=(4, 3))
        strain /= strain.sum(axis=1, keepdims=True)
        try:
            obj = Shear(strain, key)
            E = numpy.array(obj.fictitious_strain)
            Tm = numpy.array(obj.transformation_matrix)
            D = numpy.array(obj.fictitious_strain_rotated)
        except Exception as exc:
            if classify_exception(exc) == "code":
                ctx.violation(f"frame-raises:{exc_site(exc)}:{type(exc).__name__}", f"{tag}: building the rotated frame raised\n{exc_text(exc)}",
                              case_id, {"key": tag})
            else:
                ctx.harness_error("C03.frame", exc)
            continue
        # ---- the frame: real, orthogonal, diagonalising ----------------------
        ctx.count("frame_checks")
        bad = None
        if (numpy.iscomplexobj(Tm) or numpy.iscomplexobj(D)) and not (numpy.any(Tm.imag) or numpy.any(D.imag)):
            # complex dtype with zero imaginary part: numerically the same frame; that the results must be *real*
            # numbers is property C12's business (it sees the resulting crash), not C03's.
            ctx.count("complex_typed_real_frames")
            Tm, D = Tm.real.copy(), D.real.copy()
        if numpy.iscomplexobj(Tm) or numpy.iscomplexobj(D):
            bad = f"complex frame (dtype T {Tm.dtype}, D {D.dtype})"
        elif not numpy.allclose(E, E.T) or not numpy.any(E):
            bad = "fictitious strain not symmetric / zero"
        elif numpy.abs(Tm.T @ Tm - numpy.eye(3)).max() > TOL:
            bad = f"T not orthogonal ({numpy.abs(Tm.T @ Tm - numpy.eye(3)).max():.2e})"
        elif numpy.abs(Tm.T @ E @ Tm - D).max() > TOL or numpy.abs(D - numpy.diag(numpy.diag(D))).max() > TOL:
            bad = f"T^T E T != diagonal D ({numpy.abs(Tm.T @ E @ Tm - D).max():.2e})"
        if bad:
            ctx.violation(f"frame:{bad.split('(')[0].strip()}", f"{tag}: {bad}", case_id,
                          {"key": tag, "T": Tm, "D": D, "E": E})
            if numpy.iscomplexobj(Tm):
                continue
        # the fictitious strain must contain the target: e_ij e_kl != 0 at the key's indices
        i, j, k, l = T.VOIGT_TO_PAIR[a] + T.VOIGT_TO_PAIR[b]
        if E[i - 1, j - 1] * E[k - 1, l - 1] == 0:
            ctx.violation("strain-misses-target", f"{tag}: fictitious strain has no ({i}{j})({k}{l}) product", case_id)
            continue

        # ---- advertised keys ---------------------------------------------------
        keys = obj.get_modulus_keys()
        keys_r = obj.get_modulus_keys_rotated()
        if any(kk == key for kk in keys):
            ctx.violation("advertises-target", f"{tag}: get_modulus_keys() contains the target", case_id)
        if any(kk.is_shear for kk in keys_r) or any(kk == key for kk in keys_r):
            ctx.violation("rotated-keys-not-nonshear", f"{tag}: rotated keys {keys_r} include a shear-type key", case_id)

        # ---- complete part: 21 basis tensors ---------------------------------------
        for n in range(21):
            C = T.basis_tensor(n)
            r = solve(ctx, obj, key, C, Tm, case_id, "basis", tag)
            nontriv = True
            ctx.evaluation("basis", (tag, n), nontrivial=nontriv,
                           sample={"key": tag, "basis_component": list(T.VOIGT21[n]), "returned": None if r is None else float(r[0]),
                                   "expected": float(comp(C, key))})
            if r is None:
                continue
            val, reads, reads_r, ks, ksr = r
            err = abs(val - comp(C, key))
            ctx.maxi("basis_err/tol", err / TOL)
            if not (err <= TOL):
                sign = "target-component" if T.VOIGT21[n] == (a, b) else f"leak-from:{T.classify(*T.VOIGT21[n])}"
                ctx.violation(f"wrong-value:{tag}:{sign}",
                              f"{tag} on basis tensor e{T.VOIGT21[n]}: solver returned {val!r}, exact {comp(C, key)!r}",
                              case_id, {"key": tag, "basis": T.VOIGT21[n], "T": Tm})
            extra = [kk for kk in reads if kk not in ks] + [kk for kk in reads_r if kk not in ksr]
            if extra:
                ctx.violation("reads-unadvertised", f"{tag}: read {extra} not in advertised lists", case_id)
        # ---- random tensors (redundant given linearity; guards against non-linear slips) ---
        for n in range(nrand):
            C = T.random_sym_tensor(ctx.rng("rand", a, b, n), scale=10 ** ctx.rng("s", n).uniform(-2, 3))
            r = solve(ctx, obj, key, C, Tm, case_id, "random", tag)
            ctx.evaluation("random", (tag, "r", n))
            if r is None:
                continue
            sc = numpy.abs(T.vec21_from_full(C)).max()
            err = abs(r[0] - comp(C, key)) / sc
            ctx.maxi("random_err/tol", err / TOL)
            if not (err <= TOL * 10):
                ctx.violation(f"wrong-value:{tag}:random", f"{tag} random tensor: {r[0]!r} vs {comp(C, key)!r}", case_id,
                              {"key": tag, "n": n})
        # ---- linearity and element-wise action on fields --------------------------
        for n in range(nlin):
            rg = ctx.rng("lin", a, b, n)
            C1, C2 = T.random_sym_tensor(rg), T.random_sym_tensor(rg)
            al, be = rg.normal(size=2)
            r1 = solve(ctx, obj, key, C1, Tm, case_id, "lin", tag)
            r2 = solve(ctx, obj, key, C2, Tm, case_id, "lin", tag)
            r3 = solve(ctx, obj, key, al * C1 + be * C2, Tm, case_id, "lin", tag)
            ctx.evaluation("linearity", (tag, "l", n), n=3)
            if None in (r1, r2, r3):
                continue
            err = abs(r3[0] - (al * r1[0] + be * r2[0]))
            ctx.maxi("linearity_err/tol", err / (TOL * 100))
            if not (err <= TOL * 100):
                ctx.violation(f"non-linear:{tag}", f"{tag}: f(aC1+bC2) != a f(C1)+b f(C2) by {err:.2e}", case_id)
        for n in range(ctx.pick(3, 20)):
            rg = ctx.rng("field", a, b, n)
            ntv = int(rg.integers(2, 9))
            m = rg.normal(size=(ntv, 6, 6))
            m = (m + numpy.swapaxes(m, -1, -2)) / 2
            Cf = T.full_from_voigt66(m)
            r = solve(ctx, obj, key, Cf, Tm, case_id, "field", tag)
            ctx.evaluation("field", (tag, "f", n))
            if r is None:
                continue
            val = numpy.asarray(r[0])
            if val.shape != (ntv,) or numpy.abs(val - comp(Cf, key)).max() > TOL * 10:
                ctx.violation(f"field:{tag}", f"{tag}: tensor field of {ntv} rows not solved element-wise", case_id)

        # ---- rotated axial strains ---------------------------------------------------
        for n in range(nstrain):
            rg = ctx.rng("strain", a, b, n)
            rows = int(rg.integers(1, 7))
            e = rg.uniform(0.05, 0.9, size=(rows, 3))
            if n % 3 == 2:          # nearly (but not exactly) isotropic rows: differences of 0.05-0.5 %
                e = (1.0 / 3.0) * (1 + rg.uniform(-1, 1, size=(rows, 3)) * float(rg.choice([5e-4, 2e-3, 5e-3])))
            if n % 2:
                e /= e.sum(axis=1, keepdims=True)
            # other valid layouts of the same kind of data: whole-number proportions (integer dtype; only ratios matter),
            # a non-contiguous view, a read-only array
            if n % 8 == 4:
                e = rg.integers(1, 100, size=(rows, 3))
            elif n % 8 == 6:
                e = numpy.asfortranarray(numpy.concatenate([e, e[::-1]], axis=0))[::2]
            elif n % 8 == 7:
                e.setflags(write=False)
            elif n % 8 == 5:
                e = e[0].copy()          # a single strain triple, as the signature (Tuple[float, float, float]) advertises
            o2 = Shear(e, key)
            try:
                sr = numpy.asarray(o2.strain_rotated)
                T2 = numpy.array(o2.transformation_matrix)
            except Exception as exc:
                ctx.violation(f"strain_rotated-raises:{exc_site(exc)}", exc_text(exc), case_id)
                continue
            shape_in = numpy.shape(e)
            single = len(shape_in) == 1
            ctx.evaluation("strain_rotated|" + {4: "integer-dtype", 5: "single-triple", 6: "non-contiguous", 7: "read-only"}.get(n % 8, "float"), (tag, "s", n),
                           sample={"key": tag, "strain": numpy.atleast_2d(e)[0], "rotated": numpy.atleast_2d(sr)[0]})
            if sr.shape != shape_in:
                ctx.violation(f"strain_rotated-shape:{tag}", f"{tag}: strain of shape {shape_in} gives rotated strains of shape {sr.shape}", case_id)
                continue
            e, sr = numpy.atleast_2d(e), numpy.atleast_2d(sr)
            ref = numpy.einsum("ia,ni->na", T2 ** 2, e)     # diag(T^T diag(e) T)
            err = numpy.abs(sr - ref).max()
            ctx.maxi("strain_rotated_err/tol", err / TOL)
            if sr.shape != e.shape or not (err <= TOL):
                ctx.violation(f"strain_rotated:{tag}", f"{tag}: strain_rotated differs from diag(T^T diag(e) T) by {err:.2e}", case_id,
                              {"e": e, "got": sr, "ref": ref})
            if numpy.abs(sr.sum(axis=1) - e.sum(axis=1)).max() > TOL:
                ctx.violation(f"strain_trace:{tag}", f"{tag}: trace of the rotated strain not preserved", case_id)
            # eigenvector sign/order independence: permute+flip the cached frame
            perm = rg.permutation(3)
            sgn = rg.choice([-1.0, 1.0], size=3)
            o3 = Shear(e[0] if single else e, key)
            o3._transformation_matrix = T2[:, perm] * sgn[None, :]
            o3._fictitious_strain_rotated = numpy.diag(numpy.diag(numpy.array(o2.fictitious_strain_rotated))[perm])
            sr3 = numpy.atleast_2d(numpy.asarray(o3.strain_rotated))
            if numpy.abs(sr3 - sr[:, perm]).max() > TOL:
                ctx.violation(f"strain_rotated-sign-order:{tag}", f"{tag}: rotated strains depend on eigenvector sign/order", case_id)
            C = T.random_sym_tensor(rg)
            r = solve(ctx, o3, key, C, numpy.array(o3.transformation_matrix), case_id, "permframe", tag)
            ctx.evaluation("permuted-frame", (tag, "p", n))
            if r is not None and not (abs(r[0] - comp(C, key)) <= TOL * 10 * numpy.abs(T.vec21_from_full(C)).max()):
                ctx.violation(f"frame-dependence:{tag}", f"{tag}: result changes with eigenvector sign/order: {r[0]} vs {comp(C, key)}", case_id)
    ctx.require("solver_executions", 21)
    ctx.require("frame_checks", 1)
