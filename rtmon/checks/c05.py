"""C05 - total modulus = fitted static table + phonon part, end to end from files."""
import os

import numpy

from ..e2e import E2E
from ..monitors import judge_vrh
from ..oracles import assembly as A
from ..oracles import fileio as F
from ..oracles import laue
from ..oracles import tensor as T
from ..oracles import units as U
from ..workloads import files as WF
from ..trace import CallCounter
from ..runner import classify_exception, exc_site, exc_text

TOL = 1e-6


def run(ctx):
    cc = CallCounter().start()
    try:
        with E2E(ctx, judge_gap=True) as e2e:
            _run(ctx, e2e)
            if ctx.shard == ctx.nshards - 1 and ctx.only is None:
                _shipped(ctx, e2e, "akimotoite")
    finally:
        cc.stop()
    cc.report(ctx, ["calculator.py:Calculator._load", "calculator.py:Calculator._interpolate_modes",
                    "calculator.py:Calculator._calculate_pressure_static", "full_modulus.py:FullThermalElasticModulus.fit_modulus",
                    "full_modulus.py:FullThermalElasticModulus.get_static_modulus", "full_modulus.py:FullThermalElasticModulus.get_axial_strains",
                    "full_modulus.py:FullThermalElasticModulus.modulus_adiabatic", "elast_dat.py:read_elast_data", "qha_input.py:read_energy",
                    "qha_adapter.py:QHACalculator.read_input"])
    ctx.require("datasets_judged", 3)
    ctx.require("grid_points_compared", 1000)
    ctx.require("monitor:nonshear_isothermal_objects", 10)


def prepare(ctx, e2e, rng, ds, cfg, case_id):
    """Write the data set, place the requested pressures inside the computed range."""
    wd = e2e.workdir(case_id)
    WF.write_dataset(ds, cfg, wd)
    p_lo, p_hi, _ = WF.probe_pressure_range(ds, cfg, wd)
    if not (p_hi - p_lo > 1.0):
        return None, None
    WF.place_pressures(rng, cfg, p_lo, p_hi, inside=True)
    return wd, WF.write_dataset(ds, cfg, wd, settings_name="settings.json" if rng.random() < 0.3 else "settings.yaml")


def expected_static(ds, cfg, wd, v_array):
    """Oracle pipeline for the static part, from the files: {pair: array(ntv)} in Ry/bohr^3, plus the key set."""
    tab = F.read_input02_text(open(f"{wd}/{cfg['elast']['input']}").read())
    tab["components"] = {p: v for p, v in tab["components"].items() if p is not None}
    comps = {p: numpy.array(vals) for p, vals in tab["components"].items()}
    system = cfg["elast"]["settings"].get("symmetry", {}).get("system")
    if system not in (None, "triclinic"):
        S = [T.VOIGT21.index(p) for p in comps]
        B = laue.invariant_basis(system)
        sup = numpy.array([comps[T.VOIGT21[s]] for s in S])            # (|S|, nv)
        coef, *_ = numpy.linalg.lstsq(B[S, :], sup, rcond=None)
        full = B @ coef                                                    # (21, nv)
        comps = {T.VOIGT21[n]: full[n] for n in range(21) if numpy.abs(full[n]).max() > 1e-8}
    out = {}
    for p, vals in comps.items():
        out[p] = A.fit_eulerian_cubic(tab["volumes"], U.gpa_to_au(vals), v_array, times_v=True)
    return out, tab


def expected_strains(tab, v_array):
    """Analytic normalised logarithmic derivatives of the fitted axis lengths (or thirds)."""
    if tab["lattice"] is None:
        return numpy.full((len(v_array), 3), 1.0 / 3.0)
    lat = numpy.array(tab["lattice"])
    d = numpy.stack([A.fit_eulerian_cubic_dlnf_dlnv(tab["volumes"], lat[:, i], v_array) for i in range(3)], axis=1)
    return d / d.sum(axis=1, keepdims=True)


def _run(ctx, e2e):
    n = ctx.pick(48, 1000)
    for i in range(n):
        case_id = f"ds{i}"
        if not ctx.mine(i, case_id):
            continue
        rng = ctx.rng("ds", i)
        system = laue.SYSTEMS[i % 9]
        interp = WF.INTERPOLATORS[(i // 9 + i) % 7] if i % 3 else "lsq_poly"
        nv = int(rng.integers(4, 13))
        orders = WF.admissible_orders(interp, nv)
        if interp in ("lagrange", "krogh"):
            orders = [o for o in orders if o <= 5] or orders[:1]
        order = int(rng.choice(orders))
        data_class = "power-law"
        if interp == "lsq_poly" and i % 4 == 3:
            data_class = "generic"
        elif interp == "lsq_poly" and order >= 2 and i % 2:
            data_class = "poly3" if order >= 3 else "poly2"
        use_system = system != "triclinic" or bool(i % 2)
        ds = WF.gen_dataset(rng, system=system, nv=nv, data_class=data_class, lattice=bool((i // 2) % 2),
                            components="needed" if use_system else "all-nonzero", energy_class="noncubic" if i % 5 < 2 else "bm3")
        # the rows of the static table (and of its lattice block) may be listed in any order: largest volume first (as the shipped
        # files), smallest first, or unordered
        row_cls = ["largest-first", "smallest-first", "largest-first", "unordered"][(i // 2) % 4]
        if row_cls != "largest-first":
            ro = numpy.arange(len(ds.static_volumes))[::-1] if row_cls == "smallest-first" else rng.permutation(len(ds.static_volumes))
            ds.static_volumes = ds.static_volumes[ro].copy()
            ds.table_gpa = ds.table_gpa[ro].copy()
            if ds.lattice is not None:
                ds.lattice = ds.lattice[ro].copy()
        cfg = WF.gen_settings(rng, ds, interpolator=interp, order=order, use_system=use_system,
                              tmin=float(rng.choice([0, 0, 10, 300])), dt=float(rng.choice([2, 50, 100, 500])))
        if data_class == "generic":
            from ..oracles.fph import spectrum_from_lsq
            order = cfg["elast"]["settings"]["mode_gamma"]["order"]
            ds.spec = spectrum_from_lsq(ds.volumes, ds.freqs, order, ds.weights, ds.natoms)   # the polynomial a least-squares fit of that order must give
        if nv > 6 and i % 5 == 0:
            cfg["qha"]["settings"]["order"] = int(rng.choice([2, 4, 5]))    # QHA's own EoS order (schema: any number >= 2)
        # file names and locations are the user's choice: other names, a sub-directory, settings addressed by a relative path
        if i % 4 == 1:
            cfg["qha"]["input"], cfg["elast"]["input"] = "phonons.dat", "static/elast.txt"
        elif i % 4 == 2:
            cfg["qha"]["input"], cfg["elast"]["input"] = "data/input01", "data/input02"
        cls = f"{system}|{'lattice' if ds.lattice is not None else 'no-lattice'}|{interp}|static-rows:{row_cls}"
        sample = {"system": system if use_system else None, "interpolator": interp, "order": order, "volumes": nv, "nq": ds.nq, "atoms": ds.natoms,
                  "lattice_block": ds.lattice is not None, "components_in_table": ["c%d%d" % T.VOIGT21[c] for c in ds.columns], "data": data_class,
                  "grid": {k: cfg["qha"]["settings"][k] for k in ("NT", "DT", "T_MIN", "NTV", "volume_ratio")}}
        try:
            wd, path = prepare(ctx, e2e, rng, ds, cfg, case_id)
        except Exception as exc:
            if classify_exception(exc) == "code":
                ctx.violation(f"probe-raises:{type(exc).__name__}:{exc_site(exc)}", exc_text(exc), case_id, sample)
            else:
                ctx.inconc(f"QHA probe failed: {exc!r}")
            continue
        if wd is None:
            ctx.count("generator_skips")
            continue
        sample["grid"]["P_MIN"], sample["grid"]["DELTA_P"] = cfg["qha"]["settings"]["P_MIN"], cfg["qha"]["settings"]["DELTA_P"]
        here = os.getcwd()
        if i % 3 == 1:
            os.chdir(wd)                                   # settings given by a relative name from inside the directory
            calc, exc = e2e.run(os.path.basename(path), case_id, spectrum=ds.spec)
            os.chdir(here)
        elif i % 3 == 2:
            os.chdir(os.path.dirname(wd))                  # ... or from the parent directory
            calc, exc = e2e.run(os.path.join(os.path.basename(wd), os.path.basename(path)), case_id, spectrum=ds.spec)
            os.chdir(here)
        else:
            calc, exc = e2e.run(path, case_id, spectrum=ds.spec)
        if exc is not None:
            ctx.evaluation(cls, (i,), sample=sample)
            e2e.report_construction_failure(exc, case_id, system, {"config": cfg, **sample})
            continue
        try:
            nontriv = judge_dataset(ctx, e2e, calc, ds, cfg, wd, case_id, cls, sample)
        except A.FrameProblem as exc:
            ctx.violation("shear-frame:" + str(exc).split(" for ")[0][:40], str(exc), case_id, sample)
            nontriv = False
        except Exception as exc:
            ctx.harness_error("C05.judge", exc)
            continue
        ctx.evaluation(cls, (i, system, interp, order, nv), nontrivial=nontriv, sample=sample)
        # ---- metamorphic: the phonon part does not depend on the tabulated static values ------------------
        if i % 3 == 0 and nontriv:
            metamorphic_static(ctx, e2e, rng, calc, ds, cfg, wd, case_id, cls)
        # ---- history: the same files again in the same process under other grid settings (same NTV, other volume_ratio / T grid):
        #      anything remembered from the first calculation must not leak into the second
        if i % 4 == 2 and nontriv:
            import copy
            cfg2 = copy.deepcopy(cfg)
            q2 = cfg2["qha"]["settings"]
            q2["volume_ratio"] = {1.05: 1.2, 1.2: 1.4, 1.4: 1.05}.get(q2["volume_ratio"], 1.2)
            q2["T_MIN"], q2["DT"] = float(rng.choice([0, 50])), float(rng.choice([20, 150]))
            q2["DT_SAMPLE"] = q2["DT"]
            try:
                WF.write_dataset(ds, cfg2, wd)
                p_lo, p_hi, _ = WF.probe_pressure_range(ds, cfg2, wd)
                if p_hi - p_lo > 1.0:
                    WF.place_pressures(rng, cfg2, p_lo, p_hi, inside=True)
                    path2 = WF.write_dataset(ds, cfg2, wd, settings_name="settings2.yaml")
                    calc2, exc2 = e2e.run(path2, case_id + "-second-config", spectrum=ds.spec)
                    ctx.evaluation("second-configuration-same-files", (i, "second"), sample={"first": sample["grid"], "second": {k: q2[k] for k in ("NT", "DT", "T_MIN", "NTV", "volume_ratio")}})
                    if exc2 is not None:
                        e2e.report_construction_failure(exc2, case_id, "second-configuration", {"config": cfg2})
                    else:
                        judge_dataset(ctx, e2e, calc2, ds, cfg2, wd, case_id + "-second-config", cls + "|second-config", sample)
            except A.FrameProblem as exc:
                ctx.violation("shear-frame:" + str(exc).split(" for ")[0][:40], str(exc), case_id, sample)
            except Exception as exc:
                if classify_exception(exc) == "code":
                    ctx.violation(f"second-configuration-raises:{type(exc).__name__}:{exc_site(exc)}", exc_text(exc), case_id, sample)
                else:
                    ctx.harness_error("C05.second-config", exc)
        # ---- history: the same files on the *same* grids but with another mode interpolation (so only the spectrum arrays differ):
        #      judged by the monitors' second reference (the arrays each object was given), which needs no closed form
        if nontriv and ds.data_class != "power-law":
            import copy
            cfg3 = copy.deepcopy(cfg)
            mg = cfg3["elast"]["settings"]["mode_gamma"]
            if mg["interpolator"] == "lsq_poly":
                mg["order"] = 2 if mg["order"] != 2 else 1
            else:
                mg["interpolator"], mg["order"] = "lsq_poly", 1
            try:
                path3 = WF.write_dataset(ds, cfg3, wd, settings_name="settings3.yaml")
                before = e2e.ns.objects_judged
                calc3, exc3 = e2e.run(path3, case_id + "-other-interpolation", spectrum=None)
                ctx.evaluation("same-grid-other-interpolation", (i, "third"), sample={"first": cfg["elast"]["settings"]["mode_gamma"], "then": mg})
                if exc3 is not None:
                    e2e.report_construction_failure(exc3, case_id, "other-interpolation", {"config": cfg3})
                elif e2e.ns.objects_judged == before:
                    ctx.inconc("no non-shear object was judged in the other-interpolation run")
                else:
                    ctx.count("same_grid_other_spectrum_runs")
            except Exception as exc:
                if classify_exception(exc) == "code":
                    ctx.violation(f"other-interpolation-raises:{type(exc).__name__}:{exc_site(exc)}", exc_text(exc), case_id, sample)
                else:
                    ctx.harness_error("C05.third", exc)


def judge_dataset(ctx, e2e, calc, ds, cfg, wd, case_id, cls, sample):
    t = numpy.asarray(calc.t_array, float)
    v = numpy.asarray(calc.v_array, float)
    qs = cfg["qha"]["settings"]
    if len(t) != qs["NT"] + 4 or len(v) != qs["NTV"]:
        ctx.violation("grid-shape", f"{cls}: grid is ({len(t)},{len(v)}), settings ask for NT+4={qs['NT'] + 4}, NTV={qs['NTV']}", case_id, sample)
    t_want = qs["T_MIN"] + qs["DT"] * numpy.arange(len(t))
    if not numpy.allclose(t, t_want, rtol=0, atol=1e-9):
        ctx.violation("grid-temperatures", f"{cls}: temperatures {t[:3]} != T_MIN + k DT {t_want[:3]}", case_id, sample)
    P = numpy.asarray(calc.volume_base.pressures, float)
    cv = numpy.asarray(calc.qha_calculator.volume_base.heat_capacity, float)
    static_ref, tab = expected_static(ds, cfg, wd, v)
    got_keys = {tuple(int(x) for x in k.voigt) for k in calc.modulus_keys}
    if got_keys != set(static_ref):
        ctx.violation("component-set", f"{cls}: components {sorted(got_keys)} but the (filled) table has {sorted(static_ref)}", case_id, sample)
        return False
    # ---- things read from the files ----------------------------------------------------------------------
    if calc.na != ds.natoms or calc.nq != ds.nq or calc.np != ds.np:
        ctx.violation("counts-from-file", f"{cls}: na/nq/np = {calc.na}/{calc.nq}/{calc.np}, file has {ds.natoms}/{ds.nq}/{ds.np}", case_id, sample)
    wts = numpy.array([w for _, w in calc.qha_input.weights])
    if not numpy.allclose(wts, ds.weights, rtol=1e-12):
        ctx.violation("weights-from-file", f"{cls}: weights {wts[:3]} vs file {ds.weights[:3]}", case_id, sample)
    # ---- strain fractions -----------------------------------------------------------------------------------
    ax = e2e.obs.get("axial_strains")
    if ax is None:
        ctx.inconc("get_axial_strains was not observed")
        return False
    fr = ax / ax.sum(axis=1, keepdims=True)
    want = expected_strains(tab, v)
    if tab["lattice"] is None:
        if numpy.abs(fr - 1.0 / 3.0).max() > 1e-14:
            ctx.violation("strain-fractions:not-thirds", f"{cls}: no lattice block but fractions {fr[0]}", case_id, sample)
    else:
        # (a) tight: the same discrete operator (centred differences in the grid index, one-sided at the two end columns)
        #     applied to the oracle's own fit of the axis lengths
        lat = numpy.array(tab["lattice"])
        afit = numpy.stack([A.fit_eulerian_cubic(tab["volumes"], lat[:, a], v, times_v=True) for a in range(3)], axis=1)
        ext = numpy.vstack([afit[:1], afit, afit[-1:]])
        dl = (ext[2:] - ext[:-2]) / (ext[2:] + ext[:-2])
        disc = dl / dl.sum(axis=1, keepdims=True)
        e_disc = numpy.abs(fr - disc).max()
        ctx.maxi("strain_fraction_err/tol(discrete operator)", e_disc / 1e-8)
        if e_disc > 1e-8:
            j = numpy.unravel_index(int(numpy.argmax(numpy.abs(fr - disc))), fr.shape)
            ctx.violation("strain-fractions:discrete-log-derivative", f"{cls}: fractions {fr[j[0]]} vs normalised discrete log-derivatives of the fitted axes "
                          f"{disc[j[0]]} at V index {j[0]}", case_id, sample)
        # (b) loose but operator-free: analytic d ln a_i/d ln V of the fit, tolerance from the grid spacing
        dx = numpy.abs(numpy.diff(numpy.log(v))).max()
        tol_in, tol_end = 0.6 * dx ** 2 + 1e-6, 0.6 * dx + 1e-6
        err = numpy.abs(fr - want)
        inner, ends = err[1:-1].max() if len(v) > 2 else 0.0, max(err[0].max(), err[-1].max())
        ctx.maxi("strain_fraction_err/tol(interior)", inner / tol_in)
        ctx.maxi("strain_fraction_err/tol(ends)", ends / tol_end)
        if inner > tol_in or ends > tol_end:
            j = numpy.unravel_index(int(numpy.argmax(err)), err.shape)
            perm = [int(numpy.argmin(numpy.abs(want[len(v) // 2] - fr[len(v) // 2, a]))) for a in range(3)]
            ctx.violation(f"strain-fractions:{'axis-permuted' if sorted(perm) == [0, 1, 2] and perm != [0, 1, 2] else 'mismatch'}",
                          f"{cls}: fractions {fr[j[0]]} vs d ln a_i/d ln V normalised {want[j[0]]} at V index {j[0]}", case_id, sample)
    # ---- static pressure and phonon pressure ---------------------------------------------------------------------------
    # The QHA layer fits F(T,V) = E_static + F_vib at the sampled volumes with a finite-strain polynomial of the configured
    # order; the pressure term of the phonon part is "total minus static", so it is the phonon pressure exactly when the static
    # pressure is the same operator applied to E_static alone: P - P_static = -d/dV fit_N(F_vib(T, V_i)).
    eos = int(qs.get("order", 3))
    e_fit = A.fit_eulerian_poly(ds.volumes, ds.energies[None, :], v, eos)[0]
    pst = A.discrete_pressure(e_fit, v)
    got_pst = numpy.asarray(calc.static_p_array, float)
    err = numpy.abs(got_pst - pst).max() / (numpy.abs(pst).max() + 1e-300)
    ctx.maxi("static_pressure_err/tol", err / 1e-6)
    ctx.count(f"eos_order:{eos}:{getattr(ds, 'energy_class', 'bm3')}")
    if not (err <= 1e-6):
        pst3 = A.discrete_pressure(A.fit_eulerian_poly(ds.volumes, ds.energies[None, :], v, 3)[0], v)
        cubic = eos != 3 and numpy.abs(got_pst - pst3).max() <= 1e-6 * (numpy.abs(pst3).max() + 1e-300)
        ctx.violation("static-pressure:" + (f"cubic-fit-although-EoS-order-is-not-3" if cubic else "mismatch"),
                      f"{cls}: static pressure differs from -d(order-{eos} finite-strain fit of E)/dV by {err:.3g} (relative)"
                      + (" and equals the cubic fit" if cubic else ""), case_id, {**sample, "eos_order": eos})
    if not numpy.any(ds.freqs[:, 0, :3] > 0):
        fvib = A.vibrational_free_energy(ds.freqs, ds.weights, t)
        pph = numpy.stack([A.discrete_pressure(row, v) for row in A.fit_eulerian_poly(ds.volumes, fvib, v, eos)])
        scale_p = numpy.abs(P).max() + 1e-300
        errp = numpy.abs((P - got_pst[None, :]) - pph).max() / scale_p
        ctx.maxi("phonon_pressure_term_err/tol", errp / 1e-5)
        ctx.count("phonon_pressure_fields_judged")
        if not (errp <= 1e-5):
            j = numpy.unravel_index(int(numpy.argmax(numpy.abs((P - got_pst[None, :]) - pph))), P.shape)
            ctx.violation(f"pressure-term-is-not-the-phonon-pressure:EoS-order={'3' if eos == 3 else 'not-3'}",
                          f"{cls}: total minus static pressure = {(P - got_pst[None, :])[j] * U.GPA_PER_AU:.5g} GPa at T={t[j[0]]}, V index {j[1]}, but "
                          f"-d/dV of the order-{eos} fit of F_vib(T,V_i) = {pph[j] * U.GPA_PER_AU:.5g} GPa (E(V) class: {getattr(ds, 'energy_class', 'bm3')})",
                          case_id, {**sample, "eos_order": eos})
    # ---- full reference tensor ------------------------------------------------------------------------------------------
    orc = A.PhononTensorOracle(ds.spec, t, v, P, got_pst, cv, e2e.obs.get("frames", []))
    ph = {p: orc.value(p, ax) for p in static_ref}
    s_ph = max(numpy.abs(x[0]).max() for x in ph.values()) + 1e-300
    budget = calc.__dict__.get("_oracle_cache", {}).get("budget")
    extra = (budget[1] / TOL) if budget is not None else 1.0           # (nt,1) inflation from the interpolation error budget
    npts = 0
    ok = True
    for key in calc.modulus_keys:
        p = tuple(int(x) for x in key.voigt)
        kcls = T.classify(*p)
        for nm, got, ref in (("isothermal", calc.modulus_isothermal[key], static_ref[p][None, :] + ph[p][0]),
                             ("adiabatic", calc.modulus_adiabatic[key], static_ref[p][None, :] + ph[p][1])):
            got = numpy.asarray(got)
            judge = numpy.isfinite(ref)
            if nm == "adiabatic":
                judge &= (cv > 0) | (t[:, None] == 0)
            scale = numpy.abs(static_ref[p]).max() + s_ph
            with numpy.errstate(all="ignore"):
                e = numpy.where(judge, numpy.abs(got - ref) / scale / (TOL * extra * (3 if kcls == "shear" else 1)), 0)
            npts += int(judge.sum())
            ctx.maxi(f"total_{nm}_err/tol[{kcls}]", e.max())
            if not (e.max() <= 1.0):
                j = numpy.unravel_index(int(numpy.argmax(e)), e.shape)
                st = static_ref[p][j[1]]
                part = "static" if abs((got[j] - ref[j])) > 0.5 * abs(ph[p][0][j]) and abs(got[j] - st - ph[p][0][j]) > abs(got[j] - ref[j]) * 0.9 else "sum"
                ctx.violation(f"total:{nm}:{kcls}", f"{cls}: c{p[0]}{p[1]} {nm} = {got[j]!r}, reference static {st!r} + phonon {ref[j] - st!r} = {ref[j]!r} "
                              f"at T={t[j[0]]}, V index {j[1]} (err/scale {e.max() * TOL:.3g})", case_id, sample)
                ok = False
                break
        # the static part is 1-D in V and added unchanged to every T row
        row_spread = numpy.abs((numpy.asarray(calc.modulus_isothermal[key]) - ph[p][0]) - static_ref[p][None, :]).max()
    ctx.count("grid_points_compared", npts)
    ctx.count("datasets_judged")
    ctx.count("shear_frames_used", orc.frames_used)
    try:
        judge_vrh(ctx, calc, calc.volume_base, case_id, tag=cls)
    except AttributeError:
        pass
    return bool(ok and (t > 0).any() and s_ph > 0)


def metamorphic_static(ctx, e2e, rng, calc, ds, cfg, wd, case_id, cls):
    """Static table x2, and two columns' values exchanged: total - fitted static must not move."""
    v = numpy.asarray(calc.v_array, float)
    base_static, _ = expected_static(ds, cfg, wd, v)
    base_ph = {tuple(int(x) for x in k.voigt): numpy.asarray(calc.modulus_isothermal[k]) - base_static[tuple(int(x) for x in k.voigt)][None, :]
               for k in calc.modulus_keys}
    scale = max(numpy.abs(x).max() for x in base_ph.values()) + 1e-300
    wd2 = e2e.workdir(case_id + "-x2")
    path2 = WF.write_dataset(ds, cfg, wd2, table_scale=2.0)
    calc2, exc = e2e.run(path2, case_id + "-x2", spectrum=ds.spec)
    ctx.evaluation("metamorphic-static-x2", (case_id,))
    if exc is not None:
        e2e.report_construction_failure(exc, case_id, "static-table-x2")
        return
    st2, _ = expected_static(ds, cfg, wd2, v)
    for k in calc2.modulus_keys:
        p = tuple(int(x) for x in k.voigt)
        if p not in base_ph:
            continue
        d = numpy.abs((numpy.asarray(calc2.modulus_isothermal[k]) - st2[p][None, :]) - base_ph[p]).max() / (scale + numpy.abs(st2[p]).max())
        ctx.maxi("phonon_part_dependence_on_static/tol", d / 1e-10)
        if d > 1e-10:
            ctx.violation("phonon-part-depends-on-static-table", f"{cls}: doubling the static table changes total - static for c{p[0]}{p[1]} by {d:.3g}", case_id)
            break


def _shipped(ctx, e2e, example):
    """The shipped example (real DFPT data, no closed-form spectrum): every non-shear object is judged by the monitor's second
    reference, the scheduler and VRH monitors run, and the static part is isolated as M(2c) - M(c) and compared with the
    oracle's fit of the file's own (V, c) table."""
    import shutil
    import yaml
    from ..runner import repo_dir
    src = os.path.join(repo_dir(), "examples", example)
    if not os.path.exists(os.path.join(src, "input01")) or os.path.getsize(os.path.join(src, "input01")) == 0:
        return
    case_id = "shipped-" + example
    wd = e2e.workdir(case_id)
    cfg = yaml.safe_load(open(os.path.join(src, "settings.yaml")))
    for f in (cfg["qha"]["input"], cfg["elast"]["input"], "settings.yaml"):
        shutil.copy(os.path.join(src, f), wd)
    calc, exc = e2e.run(os.path.join(wd, "settings.yaml"), case_id, spectrum=None)
    ctx.evaluation("shipped|" + example, (example,), sample={"example": example, "system": cfg["elast"]["settings"].get("symmetry", {}).get("system")})
    if exc is not None:
        e2e.report_construction_failure(exc, case_id, "shipped-" + example)
        return
    v = numpy.asarray(calc.v_array, float)
    static_ref, tab = expected_static(None, cfg, wd, v)
    got_keys = {tuple(int(x) for x in k.voigt) for k in calc.modulus_keys}
    if got_keys != set(static_ref):
        ctx.violation("component-set", f"{example}: components {sorted(got_keys)} but the filled table has {sorted(static_ref)}", case_id)
        return
    ax = e2e.obs.get("axial_strains")
    if ax is not None and tab["lattice"] is not None:
        lat = numpy.array(tab["lattice"])
        afit = numpy.stack([A.fit_eulerian_cubic(tab["volumes"], lat[:, a], v, times_v=True) for a in range(3)], axis=1)
        ext = numpy.vstack([afit[:1], afit, afit[-1:]])
        dl = (ext[2:] - ext[:-2]) / (ext[2:] + ext[:-2])
        disc = dl / dl.sum(axis=1, keepdims=True)
        e_disc = numpy.abs(ax / ax.sum(axis=1, keepdims=True) - disc).max()
        ctx.maxi("strain_fraction_err/tol(discrete operator)", e_disc / 1e-8)
        if e_disc > 1e-8:
            ctx.violation("strain-fractions:discrete-log-derivative", f"{example}: strain fractions differ from the discrete log-derivatives of the fitted axes by {e_disc:.3g}", case_id)
    # second run with the static table doubled: M(2c) - M(c) is the static part
    text = open(os.path.join(wd, cfg["elast"]["input"])).read().splitlines()
    nv = tab["nv"]
    rows = [ln.split() for ln in text[3:3 + nv]]
    text[3:3 + nv] = [" ".join([r[0]] + [repr(2.0 * float(x)) for x in r[1:]]) for r in rows]
    wd2 = e2e.workdir(case_id + "-x2")
    for f in (cfg["qha"]["input"], "settings.yaml"):
        shutil.copy(os.path.join(src, f), wd2)
    open(os.path.join(wd2, cfg["elast"]["input"]), "w").write("\n".join(text) + "\n")
    calc2, exc = e2e.run(os.path.join(wd2, "settings.yaml"), case_id + "-x2", spectrum=None)
    if exc is not None:
        e2e.report_construction_failure(exc, case_id, "shipped-x2")
        return
    npts = 0
    for key in calc.modulus_keys:
        p = tuple(int(x) for x in key.voigt)
        k2 = next(k for k in calc2.modulus_keys if tuple(int(x) for x in k.voigt) == p)
        for store1, store2, nm in ((calc.modulus_isothermal, calc2.modulus_isothermal, "isothermal"), (calc.modulus_adiabatic, calc2.modulus_adiabatic, "adiabatic")):
            d = numpy.asarray(store2[k2]) - numpy.asarray(store1[key])
            fin = numpy.isfinite(d)
            scale = numpy.abs(static_ref[p]).max() + 1e-300
            err = numpy.abs(d - static_ref[p][None, :])[fin].max() / scale
            npts += int(fin.sum())
            ctx.maxi("shipped_static_part_err/tol", err / 1e-8)
            if not (err <= 1e-8):
                ctx.violation(f"static-part:{nm}:{T.classify(*p)}", f"{example}: M(2c)-M(c) of c{p[0]}{p[1]} differs from the cubic Eulerian-strain fit of the "
                              f"file's own V*c table by {err:.3g} (relative)", case_id)
                break
    ctx.count("grid_points_compared", npts)
    try:
        judge_vrh(ctx, calc, calc.volume_base, case_id, tag=example)
    except AttributeError:
        pass
