"""C08 - packaged symmetry relations == Laue invariants; fill returns the invariant tensor."""
import numpy
import sympy

from ..oracles import laue
from ..oracles import tensor as T
from ..workloads import filltables as FT
from ..trace import CallCounter
from ..runner import classify_exception, exc_site, exc_text

REL = 1e-9


def run(ctx):
    cc = CallCounter().start()
    try:
        _static(ctx)
        _dynamic(ctx)
    finally:
        cc.stop()
    cc.report(ctx, ["fill.py:fill_cij", "elast_dat.py:apply_symetry_on_elast_data"])


class Capture:
    """Observe the relation matrix the real parser hands to sympy.linear_eq_to_matrix."""

    def __init__(self):
        self.calls = []
        self._orig = sympy.linear_eq_to_matrix

    def __enter__(self):
        def spy(eqns, *symbols, **kw):
            A, b = self._orig(eqns, *symbols, **kw)
            syms = symbols[0] if len(symbols) == 1 and isinstance(symbols[0], (list, tuple)) else symbols
            self.calls.append((sympy.Matrix(A), sympy.Matrix(b), [str(s) for s in syms], list(eqns)))
            return A, b
        sympy.linear_eq_to_matrix = spy
        return self

    def __exit__(self, *a):
        sympy.linear_eq_to_matrix = self._orig


def _static(ctx):
    from cij.util.fill import fill_cij
    for isys, system in enumerate(laue.SYSTEMS):
        if not ctx.mine(isys, f"static-{system}"):
            continue
        rng = ctx.rng("static", system)
        field = FT.invariant_field(rng, system, 2)
        S = list(range(21))
        df = FT.make_frame(field, S)
        with Capture() as cap:
            try:
                fill_cij(df, system)
            except Exception as exc:
                if classify_exception(exc) == "code" or isinstance(exc, Warning):
                    ctx.violation(f"static:fill-raises:{system}:{type(exc).__name__}",
                                  f"fill_cij on a complete symmetry-consistent {system} table raised\n{exc_text(exc)}", f"static-{system}")
                else:
                    ctx.harness_error("C08.static", exc)
                continue
        A_grp = laue.constraint_matrix(system)
        if not cap.calls:
            if system == "triclinic":
                A_rel = sympy.zeros(0, 21)
                n_eq = 0
            else:
                ctx.inconc(f"relation matrix of {system} was not observed (linear_eq_to_matrix not called)")
                continue
        else:
            A, b, syms, eqns = cap.calls[0]
            n_eq = len(eqns)
            if sorted(syms) != sorted(FT.NAMES) or A.shape[1] != 21:
                ctx.violation(f"static:symbols:{system}", f"relation matrix is over {syms}, not the 21 components", f"static-{system}")
                continue
            if any(v != 0 for v in b):
                ctx.violation(f"static:inhomogeneous:{system}", f"relations of {system} have a non-zero right-hand side {list(b)}", f"static-{system}")
            perm = [syms.index(nm) for nm in FT.NAMES]
            A_rel = A[:, perm]
        same, ranks = laue.same_nullspace(A_rel, A_grp)
        dim_rel = 21 - ranks[0]
        ctx.evaluation("static-subspace", (system,), sample={"system": system, "relations_parsed": n_eq,
                                                             "dim_relations": dim_rel, "dim_laue_invariants": 21 - ranks[1],
                                                             "rank_joint": ranks[2]})
        ctx.count("exact_rank_decisions", 3)
        if not same:
            if ranks[2] > ranks[1] and ranks[2] > ranks[0]:
                kind = "neither-contains-the-other"
            elif ranks[2] > ranks[1] or ranks[0] > ranks[1]:
                kind = "relations-exclude-an-invariant-tensor"      # relations too strict
            else:
                kind = "relations-admit-a-non-invariant-tensor"   # relations too loose
            ctx.violation(f"static:subspace:{system}:{kind}",
                          f"{system}: tensors satisfying the packaged relations (dim {dim_rel}) != Laue invariants "
                          f"(dim {21 - ranks[1]}); ranks rel/group/joint = {ranks}", f"static-{system}", {"system": system})
        if 21 - ranks[1] != laue.EXPECTED_DIM[system]:
            ctx.inconc(f"oracle dimension for {system} is {21 - ranks[1]}, textbook says {laue.EXPECTED_DIM[system]}")
    ctx.require("exact_rank_decisions", 3)


def _check_result(ctx, system, field, S, out_moduli, case_id, cls, drop_atol=1e-8):
    """Result must be the invariant tensor: supplied unchanged, dependents generated, zeros omitted."""
    scale = max(1.0, numpy.abs(field).max())
    ok = True
    for i, nm in enumerate(FT.NAMES):
        want = field[:, i]
        vanishing = numpy.all(numpy.abs(want) <= drop_atol)
        if nm in out_moduli:
            got = out_moduli[nm]
            if vanishing:
                ctx.violation(f"dynamic:vanishing-component-kept:{system}", f"{system}: {nm} is zero by symmetry/at all volumes but is in the output ({got[:3]})",
                              case_id, {"system": system, "supplied": [FT.NAMES[s] for s in S]})
                ok = False
                continue
            err = numpy.abs(got - want).max() / scale
            ctx.maxi("fill_err/tol", err / REL)
            if not (err <= REL):
                kind = "supplied-moved" if i in S else "generated-wrong"
                sgn = ""
                if i not in S and numpy.abs(got + want).max() / scale <= REL:
                    sgn = ":sign"
                elif i not in S and numpy.all(numpy.abs(want) > 1e-6) and numpy.allclose(got / want, (got / want)[0], rtol=1e-6):
                    sgn = ":factor"
                ctx.violation(f"dynamic:{kind}{sgn}:{system}",
                              f"{system}: {nm} = {got[:3]} but the invariant tensor has {want[:3]} (supplied: {[FT.NAMES[s] for s in S]})",
                              case_id, {"system": system, "supplied": [FT.NAMES[s] for s in S], "component": nm})
                ok = False
        elif not vanishing:
            ctx.violation(f"dynamic:component-missing:{system}", f"{system}: {nm} (max {numpy.abs(want).max():.3g}) absent from the output",
                          case_id, {"system": system, "supplied": [FT.NAMES[s] for s in S], "component": nm})
            ok = False
    extra = set(out_moduli) - set(FT.NAMES)
    if extra:
        ctx.violation(f"dynamic:invented-columns:{system}", f"unexpected modulus columns {extra}", case_id)
    return ok


def _dynamic(ctx):
    from cij.util.fill import fill_cij
    from cij.io.traditional.elast_dat import apply_symetry_on_elast_data, ElastData, ElastVolumeData
    from cij.util import c_
    per_system = ctx.pick(40, 25000)
    k = 0
    for system in laue.SYSTEMS:
        B = laue.invariant_basis(system)
        for n in range(per_system):
            k += 1
            case_id = f"dyn-{system}-{n}"
            if not ctx.mine(k, case_id):
                continue
            rng = ctx.rng("dyn", system, n)
            nrows = int(rng.integers(1, 13))
            if n < B.shape[1]:
                field = numpy.outer(rng.uniform(50, 300, nrows), B[:, n])       # one basis vector of the invariant subspace
                cls = "basis-vector"
            else:
                zr = (n % 5 == 4)
                field = FT.invariant_field(rng, system, nrows, one_signed_with_zero=zr)
                cls = "random-invariant" + ("+component-zero-at-one-end" if zr and nrows >= 2 else "")
            S = FT.minimal_sufficient(rng, system)
            if n % 3 == 0:
                S = FT.superset(rng, S)
                cls += "+superset"
            else:
                cls += "+minimal"
            via_elast = (n % 4 == 3)
            datol = 1e-8
            generated = [i for i in range(21) if i not in S and numpy.any(numpy.abs(field[:, i]) > 1e-8)]
            dropped = [i for i in S if numpy.all(numpy.abs(field[:, i]) <= 1e-8)]
            nontriv = bool(generated or dropped)
            sample = {"system": system, "rows": nrows, "supplied": [FT.NAMES[s] for s in S],
                      "must_generate": [FT.NAMES[s] for s in generated], "must_drop": [FT.NAMES[s] for s in dropped]}
            try:
                if via_elast:
                    data = ElastData(560.0, nrows, 100.0, [
                        ElastVolumeData(600.0 - r, {c_(*T.VOIGT21[i]): float(field[r, i]) for i in S}) for r in range(nrows)], [])
                    apply_symetry_on_elast_data(data, {"system": system})
                    out = {}
                    for r, vol in enumerate(data.volumes):
                        for key, val in vol.static_elastic_modulus.items():
                            out.setdefault("c%d%d" % tuple(int(x) for x in key.voigt), numpy.zeros(nrows))[r] = val
                    if any(vol.volume != 600.0 - r for r, vol in enumerate(data.volumes)):
                        ctx.violation(f"dynamic:volumes-changed:{system}", "apply_symetry_on_elast_data changed the volumes", case_id)
                    cls += "+apply_symetry"
                else:
                    ikind = FT.INDEX_KINDS[(n // 2) % len(FT.INDEX_KINDS)]
                    df = FT.reindex(FT.make_frame(field, S, rng, shuffle=bool(n % 2)), ikind, rng)
                    cls += "+index:" + ikind
                    sample["row_index"] = ikind
                    # the drop tolerance is an option (GPa): left at its default, or - with a component that runs from zero at one end
                    # to 2..30 GPa at the other - set to 0.5 or 1.5, so that single entries of a component that must be kept lie below it
                    datol = [1e-8, 0.5, 1.5][(n // 5) % 3] if "component-zero-at-one-end" in cls else 1e-8
                    res = fill_cij(df, system) if datol == 1e-8 else fill_cij(df, system, drop_atol=datol)
                    if datol != 1e-8:
                        cls += f"+drop_atol={datol:g}"
                    out = FT.frame_moduli(res)
                    if len(res) != nrows or list(res.index) != list(df.index):
                        ctx.violation(f"dynamic:row-index-changed:{ikind}", f"{system}: the filled table has rows {list(res.index)[:4]}, the input {list(df.index)[:4]}", case_id, sample)
                    if "V" not in res.columns or not numpy.array_equal(res["V"].to_numpy(), df["V"].to_numpy()):
                        ctx.violation(f"dynamic:V-column:{system}", "the volume column was changed or lost", case_id)
            except Exception as exc:
                if classify_exception(exc) == "code" or isinstance(exc, Warning):
                    ctx.violation(f"dynamic:raises:{system}:{type(exc).__name__}:{exc_site(exc)}",
                                  f"{system}: consistent sufficient table {sample['supplied']} refused/failed\n{exc_text(exc)}", case_id, sample)
                else:
                    ctx.harness_error("C08.dynamic", exc)
                ctx.evaluation(f"{system}:{cls}", (system, n, tuple(S)), nontrivial=nontriv, sample=sample)
                continue
            ctx.evaluation(f"{system}:{cls}", (system, n, tuple(S)), nontrivial=nontriv, sample=sample)
            ctx.count("fills_judged")
            _check_result(ctx, system, field, S, out, case_id, cls, drop_atol=(datol if not via_elast else 1e-8))
            # the same supplied set again in the same process, columns in another order and other values
            if not via_elast and len(S) > 1:
                try:
                    field2 = FT.invariant_field(rng, system, nrows)
                    S2 = [S[int(j)] for j in rng.permutation(len(S))]
                    import pandas
                    df2 = pandas.DataFrame({"V": numpy.linspace(620.0, 500.0, nrows) if nrows > 1 else numpy.array([560.0]),
                                            **{FT.NAMES[s_]: field2[:, s_] for s_ in S2}})
                    out2 = FT.frame_moduli(fill_cij(df2, system))
                    ctx.evaluation(f"{system}:same-set-other-order", (system, n, tuple(S2)), nontrivial=S2 != S)
                    _check_result(ctx, system, field2, S, out2, case_id, cls + "+reordered-second-fill")
                except Exception as exc:
                    if classify_exception(exc) == "code" or isinstance(exc, Warning):
                        ctx.violation(f"dynamic:raises-on-reordered-second-fill:{system}:{type(exc).__name__}", exc_text(exc), case_id, sample)
                    else:
                        ctx.harness_error("C08.reordered", exc)
            # mixed column types: a whole-number column read as integers (as pandas.read_table types "400 461 516") next to
            # columns with decimals; the integer-typed one comes first
            if not via_elast and len(S) > 1:
                try:
                    import pandas
                    Bm = laue.invariant_basis(system)
                    fieldm = FT.invariant_field(rng, system, nrows, integer=True).astype(float)
                    ks = [k_ for k_ in range(Bm.shape[1]) if rng.random() < 0.6]
                    if ks:
                        fieldm = fieldm + (Bm[:, ks] @ rng.uniform(-0.45, 0.45, size=(len(ks), nrows))).T
                    whole = [s_ for s_ in S if numpy.allclose(fieldm[:, s_], numpy.round(fieldm[:, s_]), rtol=0, atol=1e-9)]
                    frac = [s_ for s_ in S if s_ not in whole]
                    if whole and frac:
                        first = whole[int(rng.integers(0, len(whole)))]
                        colsm = {"V": numpy.linspace(620.0, 500.0, nrows) if nrows > 1 else numpy.array([560.0]),
                                 FT.NAMES[first]: numpy.round(fieldm[:, first]).astype(numpy.int64)}
                        for s_ in S:
                            if s_ != first:
                                colsm[FT.NAMES[s_]] = numpy.round(fieldm[:, s_]).astype(numpy.int64) if (s_ in whole and rng.random() < 0.5) else fieldm[:, s_]
                        outm = FT.frame_moduli(fill_cij(pandas.DataFrame(colsm), system))
                        ctx.evaluation(f"{system}:integer-typed-first-column-next-to-decimals", (system, n, "mixed"), nontrivial=True)
                        _check_result(ctx, system, fieldm, S, outm, case_id, cls + "+mixed-column-types")
                    else:
                        ctx.count("mixed_dtype_generator_skips")
                except Exception as exc:
                    if classify_exception(exc) == "code" or isinstance(exc, Warning):
                        ctx.violation(f"dynamic:raises-on-mixed-column-types:{system}:{type(exc).__name__}", exc_text(exc), case_id, sample)
                    else:
                        ctx.harness_error("C08.mixed", exc)
    ctx.require("fills_judged", 9)
