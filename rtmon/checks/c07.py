"""C07 - VRH averages, bounds, compliances and velocities of generated stiffness fields."""
from types import SimpleNamespace

import numpy

from ..monitors import judge_vrh
from ..oracles import laue
from ..oracles import tensor as T
from ..oracles import units as U
from ..trace import CallCounter
from ..runner import classify_exception, exc_site, exc_text

ORTHO9 = [(1, 1), (2, 2), (3, 3), (1, 2), (1, 3), (2, 3), (4, 4), (5, 5), (6, 6)]


def gen_field(rng, system, nt, ntv):
    """Positive-definite stiffness field (nt, ntv, 21) in Ry/bohr^3 on the system's invariant subspace,
    eigenvalue ratio < 1e3 at (almost) every grid point."""
    B = laue.invariant_basis(system)

    def iso(lmbd, mu):
        x = numpy.zeros(21)
        for n, (a, b) in enumerate(T.VOIGT21):
            if a == b and a <= 3:
                x[n] = lmbd + 2 * mu
            elif a <= 3 and b <= 3:
                x[n] = lmbd
            elif a == b:
                x[n] = mu
        return x
    gpa = 1 / U.GPA_PER_AU
    base = iso(rng.uniform(40, 250) * gpa, rng.uniform(30, 200) * gpa)
    p1 = B @ rng.normal(size=B.shape[1])
    p2 = B @ rng.normal(size=B.shape[1])
    p1 /= numpy.abs(p1).max()
    p2 /= numpy.abs(p2).max()
    alpha = rng.uniform(0.2, 0.9) * base.max()
    xv = numpy.linspace(0, 1, ntv)[None, :, None]
    yt = numpy.linspace(0, 1, nt)[:, None, None]
    for _ in range(40):
        f = base[None, None, :] * (1 + 0.8 * xv - 0.3 * yt) + alpha * p1[None, None, :] * (1 + 0.5 * xv) + 0.3 * alpha * p2[None, None, :] * yt
        c66 = numpy.zeros((nt, ntv, 6, 6))
        for n, (a, b) in enumerate(T.VOIGT21):
            c66[..., a - 1, b - 1] = f[..., n]
            c66[..., b - 1, a - 1] = f[..., n]
        ev = numpy.linalg.eigvalsh(c66)
        if numpy.all(ev[..., 0] > 2e-3 * ev[..., -1]):
            return f
        alpha *= 0.7
    return f


def run(ctx):
    cc = CallCounter().start()
    try:
        _run(ctx)
    finally:
        cc.stop()
    cc.report(ctx, ["calculator.py:Calculator._calculate_compliances", "calculator.py:CijVolumeBaseInterface.__getattr__",
                    "calculator.py:CijVolumeBaseInterface.bulk_modulus_reuss", "calculator.py:CijVolumeBaseInterface.shear_modulus_reuss",
                    "calculator.py:CijVolumeBaseInterface.shear_modulus_voigt", "calculator.py:CijVolumeBaseInterface.mass",
                    "calculator.py:CijVolumeBaseInterface.primary_velocities", "calculator.py:CijVolumeBaseInterface.secondary_velocities"])
    ctx.require("vrh:grid_points_judged", 50)


def _run(ctx):
    from cij.core.calculator import Calculator, CijVolumeBaseInterface
    from cij.util import c_
    n = ctx.pick(360, 400000)
    for i in range(n):
        case_id = f"field{i}"
        if not ctx.mine(i, case_id):
            continue
        rng = ctx.rng("field", i)
        system = laue.SYSTEMS[i % 9]
        nt, ntv = int(rng.integers(1, 6)), int(rng.integers(1, 9))
        f = gen_field(rng, system, nt, ntv)
        B = laue.invariant_basis(system)
        nonzero = [k for k in range(21) if numpy.any(B[k, :])]
        mode = i % 3
        if mode == 0:
            keys = nonzero
        elif mode == 1:      # drop some symmetry-allowed non-orthotropic components (then they are zero for code and oracle alike)
            keys = [k for k in nonzero if T.VOIGT21[k] in ORTHO9 or rng.random() < 0.5]
        else:                # also list symmetry-forbidden components explicitly, carrying zeros
            keys = sorted(set(nonzero) | {k for k in range(21) if rng.random() < 0.3})
        stray = False
        if i % 4 == 3:
            # the declared system is not a promise about the tensor: with ignore_residuals (or strays below the residual tolerance) the
            # symmetry filling lets components through that the system forbids; C07 speaks about whatever stiffness is reported
            forb = [k for k in range(21) if not numpy.any(B[k, :])]
            if forb:
                ks = [int(k_) for k_ in rng.choice(forb, size=min(len(forb), int(rng.integers(1, 4))), replace=False)]
                f = f.copy()
                for k_ in ks:
                    f[..., k_] = float(rng.uniform(1, 10)) / U.GPA_PER_AU * float(rng.choice([-1, 1])) * (1 + 0.3 * numpy.linspace(0, 1, ntv))[None, :]
                keys = sorted(set(keys) | set(ks))
                stray = True
        order = rng.permutation(len(keys))
        keys = [keys[j] for j in order]
        adi = {c_(*T.VOIGT21[k]): f[..., k].copy() for k in keys}
        iso = {c_(*T.VOIGT21[k]): f[..., k] * (1 - 0.01 * (1 + k % 3)) for k in keys}
        mass = float(rng.uniform(20, 900))
        v = rng.uniform(60, 1200) * numpy.exp(numpy.linspace(0.15, -0.25, ntv))
        t = numpy.arange(nt) * 300.0
        vb_q = SimpleNamespace(v_array=v, t_array=t, pressures=numpy.zeros((nt, ntv)))
        # a real Calculator object (so that helper methods a refactoring may introduce exist), built without running
        # __init__: only the stiffness field and the grids are injected
        # ... with the effective configuration a settings file would give it: the crystal system and, by turns, the documented
        # symmetry options at their defaults or at other admissible values (drop_atol in GPa, up to 0.05)
        import cij.io
        sym = {"system": system}
        if i % 4 == 1:
            sym["drop_atol"] = float(rng.choice([1e-4, 2e-3, 0.05]))
        elif i % 4 == 2:
            sym.update(residual_atol=float(rng.choice([0.01, 1.0])), ignore_rank=bool(i % 8 == 2), ignore_residuals=bool(i % 16 == 2))
        if stray:
            sym["ignore_residuals"] = True
        config = cij.io.apply_default_config({"elast": {"settings": {"symmetry": sym}}})
        calc = Calculator.__new__(Calculator)
        calc.__dict__.update(_modulus_keys=list(adi.keys()), modulus_adiabatic=adi, modulus_isothermal=iso,
                             elast_data=SimpleNamespace(cellmass=mass, volumes=[SimpleNamespace(static_elastic_modulus=adi)]),
                             qha_calculator=SimpleNamespace(volume_base=vb_q, v_array=v, t_array=t), config=config)
        calc.volume_based_result = CijVolumeBaseInterface(calc)
        try:
            calc._calculate_compliances()
            vb = calc.volume_base
            judged = judge_vrh(ctx, calc, vb, case_id, tag=f"{system}")
        except Exception as exc:
            if classify_exception(exc) == "code":
                ctx.violation(f"raises:{type(exc).__name__}:{exc_site(exc)}", f"{system}: {exc_text(exc)}", case_id, {"system": system})
            else:
                ctx.harness_error("C07", exc)
            continue
        # ---- the same compliances by name: s11 ... s66 are the adiabatic ones; a name with the isothermal suffix (s11t) either
        #      is not offered or is an element of the inverse of the reported *isothermal* stiffness (c11t ...)
        if (i // 16) % 4 == 0:
            c66a, c66t = numpy.zeros((nt, ntv, 6, 6)), numpy.zeros((nt, ntv, 6, 6))
            for k_ in keys:
                a_, b_ = T.VOIGT21[k_]
                c66a[..., a_ - 1, b_ - 1] = c66a[..., b_ - 1, a_ - 1] = f[..., k_]
                c66t[..., a_ - 1, b_ - 1] = c66t[..., b_ - 1, a_ - 1] = f[..., k_] * (1 - 0.01 * (1 + k_ % 3))
            sa, st_ = numpy.linalg.inv(c66a), numpy.linalg.inv(c66t)
            for (a_, b_) in [(1, 1), (2, 3), (4, 4), (6, 6), (1, 2)]:
                for suffix, want, what in (("", sa, "adiabatic"), ("s", sa, "adiabatic"), ("t", st_, "isothermal")):
                    nm = f"s{a_}{b_}{suffix}"
                    try:
                        got = numpy.asarray(getattr(vb, nm))
                    except AttributeError:
                        ctx.count("compliance_names_not_offered" + (":" + suffix if suffix else ""))
                        continue
                    except Exception as exc:
                        ctx.violation(f"compliance-by-name:raises:{type(exc).__name__}", f"{nm}: {exc_text(exc)}", case_id)
                        continue
                    ctx.count("compliance_names_judged")
                    ref = want[..., a_ - 1, b_ - 1]
                    err = numpy.abs(got - ref).max() / numpy.abs(sa).max()
                    if err > 1e-7:
                        other = numpy.abs(got - (sa if want is st_ else st_)[..., a_ - 1, b_ - 1]).max() / numpy.abs(sa).max()
                        ctx.violation(f"compliance-by-name:{what}-name-returns-{'the-other-tensor' if other <= 1e-7 else 'something-else'}",
                                      f"{system}: {nm} differs from the ({a_},{b_}) element of the inverse of the reported {what} stiffness by {err:.3g} (relative)"
                                      + (f"; it equals the element of the inverse of the {'adiabatic' if want is st_ else 'isothermal'} one" if other <= 1e-7 else ""),
                                      case_id, {"system": system, "name": nm})
        if (i // 16) % 8 == 0:          # (not i % 8: with 16 workers that would put every such case on two of them)
            # history: writing result tables (all volume-base keywords) must leave the reported values as they were
            import os, shutil, tempfile
            here, tmpd = os.getcwd(), tempfile.mkdtemp(prefix="c07-")
            before = {k: numpy.array(v_, copy=True) for k, v_ in adi.items()}
            try:
                os.chdir(tmpd)
                vb.write_variables(["cij", "cij_t", "bm_VRH", "G_VRH", "vp", "vs", "bm_V", "bm_R", "G_V", "G_R"])
                os.chdir(here)
                if any(not numpy.array_equal(before[k], numpy.asarray(calc.modulus_adiabatic[k])) for k in before):
                    ctx.violation("history:writing-tables-changes-the-stiffness", f"{system}: modulus_adiabatic differs after write_variables", case_id)
                else:
                    judge_vrh(ctx, calc, vb, case_id, tag=f"{system}/after-writing")
                ctx.count("rejudged_after_writing")
            except Exception as exc:
                os.chdir(here)
                if classify_exception(exc) == "code":
                    ctx.violation(f"write-raises:{type(exc).__name__}:{exc_site(exc)}", f"{system}: {exc_text(exc)}", case_id)
                else:
                    ctx.harness_error("C07.write", exc)
            finally:
                shutil.rmtree(tmpd, ignore_errors=True)
        kv, kr = numpy.asarray(vb.bulk_modulus_voigt), numpy.asarray(vb.bulk_modulus_reuss)
        aniso = bool(numpy.any(numpy.abs(kv - kr) > 1e-9 * numpy.abs(kv)) or
                     numpy.any(numpy.abs(numpy.asarray(vb.shear_modulus_voigt) - numpy.asarray(vb.shear_modulus_reuss)) > 1e-9 * numpy.abs(kv)))
        ctx.evaluation(f"{system}|{['all-nonzero', 'subset', 'superset-with-zeros'][mode]}|symmetry-options:{['default', 'drop_atol', 'residual/ignore', 'default'][i % 4]}" + ("|components-the-system-forbids" if stray else ""),
                       (system, i, tuple(sorted(keys))),
                       nontrivial=judged > 0 and aniso,
                       sample={"system": system, "grid": [nt, ntv], "components": ["c%d%d" % T.VOIGT21[k] for k in keys], "cell_mass": mass,
                               "c11[0,0] (GPa)": float(f[0, 0, 0] * U.GPA_PER_AU), "K_V[0,0] (GPa)": float(kv[0, 0] * U.GPA_PER_AU),
                               "v_p[0,0] (km/s)": float(numpy.asarray(vb.primary_velocities)[0, 0])})
