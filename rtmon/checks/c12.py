"""C12 - results are finite and real on the whole grid for every valid configuration."""
import numpy

from ..e2e import E2E
from ..monitors import judge_vrh
from ..oracles import laue
from ..oracles import tensor as T
from ..oracles import units as U
from ..workloads import files as WF
from ..trace import CallCounter
from ..runner import classify_exception, exc_site, exc_text

TGRIDS = [(0, 0.5), (0, 2), (0, 50), (0, 500), (0.5, 0.5), (1, 2), (3, 0.5), (10, 50), (300, 500), (0.5, 50), (1, 0.5), (3, 2), (10, 2), (300, 50)]


def configurations(ctx):
    """Covering array (quick) or a much larger sample of the product (thorough)."""
    n = ctx.pick(126, 20160)
    for i in range(n):
        rng = ctx.rng("cfg", i)
        interp = WF.INTERPOLATORS[i % 7]
        system = laue.SYSTEMS[(i // 7 + i) % 9] if ctx.quick else laue.SYSTEMS[i % 9]
        tmin, dt = TGRIDS[(i // 3) % len(TGRIDS)]
        comp = ["needed", "all-nonzero", "no-symmetry-all-21"][i % 3]
        yield i, rng, interp, system, tmin, dt, comp


def run(ctx):
    cc = CallCounter().start()
    try:
        with E2E(ctx, judge_gap=False) as e2e:
            _run(ctx, e2e)
    finally:
        cc.stop()
    cc.report(ctx, ["calculator.py:Calculator.__init__", "nonshear.py:LongitudinalElasticModulusPhononContribution.Q2",
                    "shear.py:ShearElasticModulusPhononContribution.transformation_matrix", "mode_gamma.py:interpolate_modes",
                    "calculator.py:Calculator._calculate_compliances"])
    ctx.require("constructions_completed", 7)
    ctx.require("grid_points_checked", 1000)


def _run(ctx, e2e):
    for i, rng, interp, system, tmin, dt, comp in configurations(ctx):
        case_id = f"cfg{i}"
        if not ctx.mine(i, case_id):
            continue
        _one(ctx, e2e, i, rng, interp, system, tmin, dt, comp, case_id)
    # size is an input dimension too: a fine temperature grid from T=0 (hundreds of rows below 10 K) on a many-mode spectrum,
    # so that every (T,V,q,mode) array is large (quick: one configuration with 40 MB arrays; thorough: four with 280 MB arrays)
    for j in range(ctx.pick(1, 4)):
        case_id = f"large{j}"
        if not ctx.mine(10 ** 6 + 7 * j + 3, case_id):
            continue
        rng = ctx.rng("large", j)
        _one(ctx, e2e, 10 ** 6 + j, rng, ["lsq_poly", "spline", "pchip", "krogh"][j], laue.SYSTEMS[(3 * j + 1) % 9], 0.0, [0.5, 0.25, 1.0, 0.5][j],
             "needed", case_id, large=True)


def _one(ctx, e2e, i, rng, interp, system, tmin, dt, comp, case_id, large=False):
    if True:
        nv = int(rng.integers(4, 13))
        orders = WF.admissible_orders(interp, nv)
        if not orders:
            return
        order = orders[(i // 7) % len(orders)]
        data_class = "power-law" if (interp != "lsq_poly" or order < 2) else ["power-law", "poly2", "poly3"][min(order, 3) - 1 if i % 2 else 0]
        use_system = comp != "no-symmetry-all-21"
        ds = WF.gen_dataset(rng, system=system if use_system else "triclinic", nv=nv, nq=ctx.pick(4, 6) if large else int(rng.integers(1, 5)),
                            natoms=ctx.pick(10, 12) if large else int(rng.integers(1, 5)),
                            data_class=data_class, components="all-nonzero" if comp != "needed" else "needed",
                            energy_class="noncubic" if i % 2 else "bm3", zero_weight=(i % 5 == 2))
        cfg = WF.gen_settings(rng, ds, interpolator=interp, order=order, tmin=tmin, dt=dt, nt=ctx.pick(996, 1996) if large else int(rng.integers(2, 13)),
                              ntv=ctx.pick(40, 81) if large else int(rng.integers(8, 41)),
                              use_system=use_system, eos_order=[3, 2, 4, 5, 3][i % 5] if nv > 6 else 3)
        wd = e2e.workdir(case_id)
        path = WF.write_dataset(ds, cfg, wd)
        cls = f"{interp}|T_MIN={tmin:g},DT={dt:g}|{comp}" + ("|large-grid" if large else "")
        cls_base = cls
        sample = {"interpolator": interp, "order": order, "system": ds.system if use_system else None, "T_MIN": tmin, "DT": dt,
                  "NT": cfg["qha"]["settings"]["NT"], "NTV": cfg["qha"]["settings"]["NTV"], "volumes": nv, "nq": ds.nq, "atoms": ds.natoms,
                  "components_in_table": ["c%d%d" % T.VOIGT21[n] for n in ds.columns], "data": data_class,
                  "eos_order": cfg["qha"]["settings"]["order"], "E(V)": ds.energy_class,
                  "q_point_weights": [float(w) for w in ds.weights]}
        try:
            p_lo, p_hi, _ = WF.probe_pressure_range(ds, cfg, wd)
        except Exception as exc:
            if classify_exception(exc) == "code":
                ctx.violation(f"probe-raises:{type(exc).__name__}:{exc_site(exc)}", exc_text(exc), case_id, sample)
            else:
                ctx.inconc(f"QHA probe failed: {exc!r}")
            return
        if not (p_hi - p_lo > 1.0):
            ctx.count("generator_skips")
            return
        WF.place_pressures(rng, cfg, p_lo, p_hi, inside=True)
        # the output sampling intervals are optional settings: given equal to the grid steps, left out (the packaged defaults
        # of 100 K / 1 GPa then apply, whatever DT and DELTA_P are), or given as a multiple of the grid steps
        sampling = ["as-grid", "omitted", "multiple"][(i // 2) % 3]
        qs_ = cfg["qha"]["settings"]
        if sampling == "omitted":
            qs_.pop("DT_SAMPLE", None)
            qs_.pop("DELTA_P_SAMPLE", None)
        elif sampling == "multiple":
            qs_["DT_SAMPLE"] = qs_["DT"] * int(rng.integers(2, 5))
            qs_["DELTA_P_SAMPLE"] = qs_["DELTA_P"] * int(rng.integers(2, 4))
        sample["sampling_intervals"] = sampling
        path = WF.write_dataset(ds, cfg, wd)
        # only the always-valid second reference (arrays the objects were given) runs here; the free-energy reference
        # needs the interpolation error budget and is applied in C05
        calc, exc = e2e.run(path, case_id, spectrum=None)
        ctx.evaluation(cls, (i, interp, order, system, tmin, dt, comp), sample=sample)
        if exc is not None:
            e2e.report_construction_failure(exc, case_id, f"{interp}", {"config": cfg, **sample})
            return
        ctx.count("constructions_completed")
        _judge(ctx, calc, cls, interp, case_id, sample)
        # ---- the same data again in the same process on another temperature grid of the same shape: anything kept from the
        #      first calculation (memoised Bose factors, grids, fits) must not be reused for different temperatures
        if i % 3 == 0 and not large:
            import copy
            cfg2 = copy.deepcopy(cfg)
            q2 = cfg2["qha"]["settings"]
            q2["T_MIN"] = float(q2["T_MIN"]) + (1.0 if q2["T_MIN"] == 0 else float(q2["DT"]) / 2)
            path2 = WF.write_dataset(ds, cfg2, wd, settings_name="settings2.yaml")
            calc2, exc2 = e2e.run(path2, case_id + "-shifted-T", spectrum=None)
            ctx.evaluation(cls + "|shifted-T-same-shape", (i, "shifted"), sample={**sample, "T_MIN": q2["T_MIN"]})
            if exc2 is not None:
                if isinstance(exc2, ValueError) and "PRESSURE" in str(exc2).upper():
                    ctx.count("shifted_grid_out_of_pressure_range")
                else:
                    e2e.report_construction_failure(exc2, case_id, f"{interp}:shifted-T", {"config": cfg2})
            else:
                ctx.count("constructions_completed")
                _judge(ctx, calc2, cls + "|shifted-T", interp, case_id + "-shifted-T", {**sample, "T_MIN": q2["T_MIN"]})


def _judge(ctx, calc, cls, interp, case_id, sample):
    if True:
        t = numpy.asarray(calc.t_array, dtype=float)
        cv = numpy.asarray(calc.qha_calculator.volume_base.heat_capacity, dtype=float)
        nkeys = len(calc.modulus_keys)
        ctx.count("keys_checked", nkeys)
        ctx.count("shear_keys_checked", sum(1 for k in calc.modulus_keys if k.is_shear))
        zero_rows = t == 0
        for key in calc.modulus_keys:
            a, b = (int(x) for x in key.voigt)
            kcls = T.classify(a, b)
            iso = numpy.asarray(calc.modulus_isothermal[key])
            adi = numpy.asarray(calc.modulus_adiabatic[key])
            ctx.count("grid_points_checked", iso.size)
            if numpy.iscomplexobj(iso) or numpy.iscomplexobj(adi):
                ctx.violation(f"complex-modulus:{kcls}", f"{cls}: c{a}{b} has dtype {iso.dtype}/{adi.dtype}", case_id, sample)
                continue
            if iso.shape != (len(t), len(calc.v_array)):
                ctx.violation(f"shape:{kcls}", f"{cls}: c{a}{b} has shape {iso.shape}", case_id, sample)
                continue
            if not numpy.all(numpy.isfinite(iso)):
                idx = numpy.argwhere(~numpy.isfinite(iso))[0]
                trow = t[idx[0]]
                tcls = "T=0" if trow == 0 else "lowT" if trow < 20 else "other"
                ctx.violation(f"non-finite-isothermal:{kcls}:{interp}:{tcls}", f"{cls}: c{a}{b} isothermal is {iso[tuple(idx)]} at T={trow}, V index {idx[1]}",
                              case_id, sample)
                continue
            ok = (cv > 0) | zero_rows[:, None]
            if not numpy.all(numpy.isfinite(adi[ok])):
                idx = numpy.argwhere(ok & ~numpy.isfinite(adi))[0]
                ctx.violation(f"non-finite-adiabatic:{kcls}:{interp}", f"{cls}: c{a}{b} adiabatic non-finite at T={t[idx[0]]} although C_V>0 or T=0",
                              case_id, sample)
            # continuity towards T=0: |c(T1)-c(0)| bounded by the thermal magnitude at T1
            if zero_rows.any() and (t > 0).any():
                i0 = int(numpy.argmax(zero_rows))
                pos = numpy.where(t > 0)[0]
                i1 = pos[int(numpy.argmin(t[pos]))]
                jump = numpy.abs(iso[i1] - iso[i0]).max()
                static = numpy.abs(iso[i0]).max() + 1e-300
                # thermal part scales at most like the classical limit k_B T 3N/V times O(gamma^2/e^2): generous bound
                bound = U.KB_RY * t[i1] * 3 * calc.na / numpy.min(calc.v_array) * 400 + 1e-9 * static
                ctx.maxi("continuity_jump/bound", jump / bound)
                if jump > bound:
                    ctx.violation(f"discontinuity-at-T0:{kcls}", f"{cls}: c{a}{b} jumps by {jump:.3g} between T=0 and T={t[i1]} (bound {bound:.3g})", case_id, sample)
                # the adiabatic correction is a thermal term too: it vanishes at T=0 (c^S(0) = c^T(0)) and c^S(T) -> c^S(0)
                if numpy.all(numpy.isfinite(adi[i0])):
                    d0 = numpy.abs(adi[i0] - iso[i0]).max()
                    ctx.maxi("adiabatic_minus_isothermal_at_T0/tol", d0 / (1e-9 * static))
                    ctx.count("adiabatic_T0_rows_checked")
                    if d0 > 1e-9 * static:
                        ctx.violation(f"adiabatic-differs-from-isothermal-at-T0:{kcls}", f"{cls}: c{a}{b} adiabatic differs from isothermal by {d0:.3g} at T=0 "
                                      f"(C_V exactly zero at {int((cv[t > 0] == 0).sum())} grid points with T>0)", case_id, sample)
                    fin = (cv[i1] > 0) & numpy.isfinite(adi[i1])
                    if fin.any():
                        jump_s = numpy.abs(adi[i1] - adi[i0])[fin].max()
                        ctx.maxi("continuity_jump_adiabatic/bound", jump_s / bound)
                        if jump_s > bound:
                            ctx.violation(f"discontinuity-at-T0:adiabatic:{kcls}", f"{cls}: adiabatic c{a}{b} jumps by {jump_s:.3g} between T=0 and "
                                          f"T={t[i1]} (bound {bound:.3g})", case_id, sample)
        try:
            judged = judge_vrh(ctx, calc, calc.volume_base, case_id, tag=cls)
            for prop in ("bulk_modulus_voigt_reuss_hill", "shear_modulus_voigt_reuss_hill", "primary_velocities", "secondary_velocities"):
                val = numpy.asarray(getattr(calc.volume_base, prop))
                if numpy.iscomplexobj(val):
                    ctx.violation(f"complex-average:{prop}", f"{cls}: {prop} is complex", case_id, sample)
        except AttributeError as exc:
            ctx.count("averages_unavailable")   # table without the nine orthotropic components: nothing to average
        except Exception as exc:
            if classify_exception(exc) == "code":
                ctx.violation(f"averages-raise:{type(exc).__name__}:{exc_site(exc)}", exc_text(exc), case_id, sample)
            else:
                ctx.harness_error("C12.vrh", exc)
