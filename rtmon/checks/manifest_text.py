"""Wording of MANIFEST.json entries, one per implemented check."""

TEXT = {
    "C10": {
        "level": "Runtime monitoring of the real constructors over the complete finite domain: every one of the 81 index "
                 "tuples and 36 Voigt pairs in every spelling (ints, packed int, string, numpy ints, alternative constructors) "
                 "is executed; all pairwise equalities/hashes are compared with orbits computed by closure under the three "
                 "tensor symmetries; views, round trips, multiplicities (orbit sizes), the 3/3/15 classification and the "
                 "out-of-range ring are checked. Exhaustive for the stated domain, so a held verdict is complete for it.",
        "note": "Trusts CPython tuple hashing/equality. The oracle derives orbits by closure, not through any Voigt table shared with the code.",
        "technique": "runtime monitoring: exhaustive execution of the real constructors against an orbit oracle",
    },
}
