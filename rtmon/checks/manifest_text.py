"""Wording of MANIFEST.json entries, one per implemented check."""

TEXT = {
    "C10": {
        "level": "Runtime monitoring of the real constructors over the complete finite domain: every one of the 81 index "
                 "tuples and 36 Voigt pairs in every spelling (ints, packed int, string, numpy ints, alternative constructors) "
                 "is executed; all pairwise equalities/hashes are compared with orbits computed by closure under the three "
                 "tensor symmetries; views, round trips, multiplicities (orbit sizes), the 3/3/15 classification and the "
                 "out-of-range ring are checked. Exhaustive for the stated domain, so a held verdict is complete for it.",
        "note": "Trusts CPython tuple hashing/equality. The oracle derives orbits by closure, not through any Voigt table shared with the code.",
        "technique": "runtime monitoring: exhaustive execution of the real constructors against an orbit oracle",
    },
}

TEXT.update({
    "C03": {
        "level": "The real ShearElasticModulusPhononContribution is executed for all 15 shear-type keys on all 21 canonical basis "
                 "tensors (complete for the linear map) plus random tensors, tensor fields and linearity probes; spy dictionaries "
                 "record every component it reads and refuse the target; the frame it chose is checked to be orthogonal and "
                 "diagonalising, and the oracle rotates the full 3x3x3x3 tensor into it. Rotated strains are compared with "
                 "diag(T^T diag(e) T) and re-run with permuted/sign-flipped eigenvectors. Exactness to 1e-12.",
        "note": "Linearity is monitored on random pairs rather than proved; the frame T is the solver's own (the property says so).",
        "technique": "runtime monitoring: spy-dictionary hooks on the real solver + full-tensor rotation oracle over a complete basis",
    },
    "C08": {
        "level": "Static half: for each of the nine systems the relation matrix that the real parser hands to sympy.linear_eq_to_matrix "
                 "is captured during a real fill_cij call and compared, by exact rational rank computations, with the invariant "
                 "subspace of the Laue group built from rotation generators (both inclusions) - complete. Dynamic half: generated "
                 "symmetry-consistent tables (each basis vector of the invariant subspace and random combinations, 1-12 rows, "
                 "minimal sufficient subsets and supersets, via fill_cij and apply_symetry_on_elast_data) must come back as the "
                 "invariant tensor (1e-9), with vanishing components omitted.",
        "note": "Trusts sympy exact arithmetic and the textbook Laue generators in the stated setting (dimensions 21/13/9/7/6/7/6/5/3 cross-checked).",
        "technique": "runtime monitoring: captured parser output vs exact group-theory oracle; generated-table differential check",
    },
    "C09": {
        "level": "Generated tables drive the real fill_cij / `cij fill`: sufficiency decided by an independent rank computation on the "
                 "Laue-invariant subspace, inconsistencies injected away from the threshold (>=5 GPa must refuse, <=0.01 GPa must "
                 "accept), all four flag combinations, zero-by-symmetry components given non-zero values; on acceptance supplied "
                 "values/relations are bounded by sqrt(residual_atol), non-modulus columns (incl. all-zero) must survive, drop "
                 "tolerance is probed on both sides; presentation variants (order, case, int dtype, explicit defaults) must agree; "
                 "working directories containing directories named like systems and user-written relation files (by absolute and "
                 "relative path) are exercised in-process and through the real command in subprocesses.",
        "note": "Refusal oracle assumes relations == Laue invariants (that is C08). Perturbations inside (0.01, 5) GPa are not judged.",
        "technique": "runtime monitoring: outcome classification of the real function against a group-theoretic refusal oracle, metamorphic presentation/environment runs",
    },
    "C16": {
        "level": "icontract post-conditions (leaf-path merge oracle, inputs untouched) wrap the real update_config so that recursion and "
                 "apply_default_config go through them; thousands of generated nested dictionaries including every shape conflict, "
                 "sparse overrides of the packaged defaults, idempotence; YAML/JSON spellings through the real read_config; the "
                 "real validate_config is driven with every documented field set to accepted and rejected values on several valid "
                 "bases, missing sections, and the shipped files.",
        "note": "Empty-dict-versus-scalar conflicts are skipped (the statement does not pin them). Accept/reject tables are a transcription of the documented schema constraints.",
        "technique": "runtime monitoring: icontract contracts on the real merge + single-field perturbation sweep of the real validator",
    },
    "C20": {
        "level": "The real evec_sort, evec_disp2eig and evec_load are executed on generated unitary bases (real/complex, dim 2-60, "
                 "permutations, phases, perturbations up to 5 % in 2-norm, four container presentations), unrelated bases "
                 "(permutation-of-input invariant), mismatched dimensions (must raise), displacement sets with arbitrary norms and "
                 "masses, and matdyn-layout files written by the oracle's own Fortran-format writer (every value compared).",
        "note": "Perturbation domain chosen so that the correct assignment is forced (true overlaps >= 0.95, false <= 0.05).",
        "technique": "runtime monitoring: generated-input differential checks with unique tokens identifying the applied permutation",
    },
})

TEXT.update({
    "C01": {
        "level": "LazyProperty hooks on both real non-shear contribution classes judge every object at the moment its cached "
                 "values are computed. Reference 1: F_ph(T,V) of a registered closed-form spectrum evaluated in longdouble with "
                 "own CODATA constants and differentiated numerically (8th-order stencils in ln V) - no Grueneisen algebra shared "
                 "with the code; reference 2: closed-form sums re-derived from the arrays the object was given. Zero-point and "
                 "thermal parts separately, T=0 rows exactly zero, off-diagonal pressure term exactly P_total-P_static. Workload: "
                 "1-8 q-points, 1-10 atoms, weights over six decades, T grids with 0 anywhere and down to 1e-3 K, 2-40 volumes in "
                 "either order, strain fractions varying along V, garbage in the Gamma acoustic slots, hostile classes.",
        "note": "Tolerance 1e-6 x sum of absolute mode terms (measured agreement 5e-9). Spectra are smooth closed forms; arbitrary gamma arrays are covered by reference 2 only.",
        "technique": "runtime monitoring: LazyProperty hooks on the real classes + independent free-energy oracle (numerical differentiation)",
    },
    "C02": {
        "level": "Same hooks as C01 plus the gap: isothermal_to_adiabatic and value_adiabatic of every non-shear object are compared "
                 "with T V (dP/dT)^2/(9 e_i e_j C_V), dP/dT from the mixed numerical derivative of the longdouble F_ph (second "
                 "reference from arrays), for arbitrary positive C_V fields; T=0 rows exactly 0, diagonal gap non-negative where "
                 "C_V>0. Shear part: all 21 keys run through the real task list with a scheduler monitor that checks, at the moment "
                 "a shear task's adiabatic value is requested, that its inputs are the isothermal-store arrays, that no dependency "
                 "is read from the adiabatic store, and that adiabatic == isothermal element-wise while the stores differ.",
        "note": "Comparison scale is cancellation-aware (sum |gamma| Q2) with a floor of 1e-9 x the classical magnitude, because the gap ~ exp(-2Q) at low T is hypersensitive to the last digits of hbar/k_B.",
        "technique": "runtime monitoring: LazyProperty/property hooks + scheduler event monitor, free-energy oracle with mixed numerical derivative",
    },
    "C04": {
        "level": "An event monitor on the real scheduler (resolve, calculate, task getters, results-store get/set) feeds an offline "
                 "checker: DAG, topological order against get_dependencies() recomputed per task, no read-before-write, every task "
                 "evaluated once, equal-parameter writes equal, no adiabatic-store reads while computing dependants. Values: a "
                 "canonical all-21 run per (spectrum, strain field) must be reproduced by singletons, pairs in both orders, random "
                 "subsets/permutations (1e-10 x tensor scale; 1e-4 inside the scheduler's own allclose de-duplication window, "
                 "measured and reported); equal strains give the isotropic tensor; all six axis relabellings permute all 81 tuples.",
        "note": "Strain classes: constant, varying along V, equal, pairwise equal, near-degenerate at 1e-3/1e-4/1e-6/1e-8. The de-duplication by numpy.allclose is the property's own mechanism (DESIGN.md O1).",
        "technique": "runtime monitoring: recorded scheduler event log + offline ordering/exactly-once checker, metamorphic request/axis runs",
    },
})

TEXT.update({
    "C07": {
        "level": "The real Calculator._calculate_compliances and every averaged property of the real CijVolumeBaseInterface are run on "
                 "generated positive-definite stiffness fields (all nine systems, (T,V) grids, complete/sub/super-sets of components "
                 "in random order, isothermal != adiabatic, arbitrary masses and volumes) and compared with contractions of the full "
                 "3x3x3x3 tensor and its rank-4 inverse, bounds ordering, compliance x stiffness = 1, attribute-style lookups, and "
                 "velocities recomputed in SI from own CODATA constants. The same judge runs on every real end-to-end Calculator in "
                 "C05/C12.",
        "note": "Only grid points whose 6x6 stiffness has eigenvalue ratio < 1e3 are judged (the statement's domain). Stiffness magnitudes 40-500 GPa.",
        "technique": "runtime monitoring: real averaging code on generated tensor fields vs full-tensor oracle",
    },
    "C11": {
        "level": "The real interpolate_modes is called for all seven methods x every admissible order x 4-12 sampled volumes x three "
                 "expansion ratios on duck-typed inputs whose modes carry unique (w0, gamma0) labels. Triple consistency is decided "
                 "on 5-point windows placed strictly inside each polynomial piece (Boole's rule, exact to degree 5): "
                 "ln w(b)-ln w(a) = -int gamma and gamma(b)-gamma(a) = int V dgamma/dV, including both extrapolation regions; "
                 "exactness against the closed form for power-law data (all methods) and polynomials up to the order (lsq_poly); "
                 "tolerances self-calibrated from a 1e-13 input perturbation; Gamma acoustic slots must stay zero; ModePlotter is "
                 "driven with a recording axes object for n=0,1,2.",
        "note": "Breakpoints of the smoothing spline are obtained by constructing the same scipy spline (knots only, not values).",
        "technique": "runtime monitoring: real interpolation on labelled synthetic spectra, integral-consistency oracle, recording-axes spy",
    },
    "C12": {
        "level": "Real Calculator constructions on generated data sets over a covering array (quick) / large sample (thorough) of "
                 "interpolator x admissible order x crystal system x temperature grid (T_MIN 0-300 K, DT 0.5-500 K) x component set "
                 "(needed subset, all symmetry-allowed, no symmetry with all 21 keys). Every modulus is checked for dtype, shape and "
                 "finiteness at every grid point (adiabatic where C_V>0 or T=0), continuity towards T=0, averages/velocities where "
                 "the stiffness is positive definite; all non-shear objects are additionally judged by the C01 monitor's second "
                 "reference and the scheduler monitor stays attached.",
        "note": "Requested pressures are placed inside the computed range by a QHA-only probe (harness level). Data sets are smooth closed-form spectra with BM3 static energies.",
        "technique": "runtime monitoring: configuration sweep of the real end-to-end pipeline with finiteness/dtype monitors on every result array",
    },
    "C17": {
        "level": "write_energy -> read_energy on generated data (1-12 volumes, 1-10 q-points, 3-60 modes, either sign, magnitudes to 1e5) "
                 "with the written file also parsed by the oracle's own reader (so writer and reader are judged separately), plus "
                 "oracle-written phonon files in three number formats through the real reader; read_elast_data on oracle-written "
                 "tables in nine column spellings, any subset/order, three number formats, with/without lattice block; and the real "
                 "`cij fill` (CliRunner and subprocess) on all nine systems whose stdout must parse (real and oracle reader) to the "
                 "symmetry-filled table with header lines, volumes and trailing block preserved.",
        "note": "Comment lines that themselves look like a five-integer counts line are outside the stated domain.",
        "technique": "runtime monitoring: write/read differential against independent parsers and writers",
    },
})

TEXT.update({
    "C05": {
        "level": "Real Calculator runs on generated file sets (all nine systems, 4-12 volumes, 1-8 q-points, 1-10 atoms, with/without "
                 "lattice block, needed/complete component sets, every interpolator, YAML/JSON settings, requested pressures placed "
                 "inside the computed range) are compared at every grid point of every key, isothermal and adiabatic, with a "
                 "reference computed from the files by the oracle: own parsers, own GPa conversion, own least-squares cubic of V*c "
                 "in Eulerian strain, symmetry fill by projection on the Laue-invariant subspace, own static-pressure fit with the "
                 "QHA layer's discrete derivative, strain fractions (tight against the discrete log-derivative of the oracle's own "
                 "axis fit, loose against the analytic one), non-shear parts from numerical derivatives of F_ph, shear parts by the "
                 "oracle's own rotation recipe on full index tuples using the observed (validated) frames. The C01/C02/C04/C07 "
                 "monitors stay attached; a metamorphic run with the static table doubled checks that total - static does not move.",
        "note": "P(T,V), C_V(T,V) and the grids are taken from the QHA layer as the property says. Spectra are exact for the chosen interpolator (power law, or polynomial up to the lsq order); the measured interpolation error inflates the phonon tolerance.",
        "technique": "runtime monitoring: end-to-end differential check of the real pipeline against an independent reference pipeline, with hooks observing intermediate quantities",
    },
    "C06": {
        "level": "A hook on the real CijPressureBaseInterface.v2p records (input field, output field) of every conversion while every "
                 "pressure-base quantity (each modulus S/T, six averages, both velocities, compliances, attribute-style names, the "
                 "pressure field itself, V(T,P)) is read on real runs; each is compared at every (T,P) with the oracle's own "
                 "bracket search + Neville cubic on the same isotherm (1e-8), the input field must be the volume-base quantity, "
                 "v2p(P) must return the requested pressures, V(T,P) must decrease and satisfy P(T,V(T,P))=P. Pressure grids that "
                 "overshoot the reachable range by 1 %-300 % must raise ValueError before any conversion; grids inside by 1 %-30 % "
                 "must be accepted.",
        "note": "Isotherms must be monotonic (checked; otherwise the run is skipped and counted). Stencils touching non-finite inputs (adiabatic values where C_V<=0) are not judged.",
        "technique": "runtime monitoring: call-level hook on the real conversion + independent interpolation oracle; refusal/acceptance sweep",
    },
    "C13": {
        "level": "Metamorphic pairs through the real Calculator: q-point order with weights, mode order within each q-point (optical "
                 "modes only at Gamma), common weight factor over six decades, static columns permuted/upper-cased/re-spelled, "
                 "static and lattice rows permuted, all combined, and volume blocks reversed/shuffled; every modulus (S and T), the "
                 "averages and velocities in both bases, V(T,P), the volume grid and P(T,V) must agree with the baseline to 1e-8, "
                 "and for re-ordered volume blocks the outcome must be equal results or an error. The parsed inputs are compared to "
                 "make sure the re-presentation reached the code. Includes the shipped akimotoite example re-presented.",
        "note": "All seven interpolators are cycled; data are synthetic except akimotoite.",
        "technique": "runtime monitoring: metamorphic re-presentation runs of the real pipeline",
    },
    "C14": {
        "level": "Subprocess histories: the real `cij run` under different PYTHONHASHSEED values and in working directories seeded "
                 "with files/directories named like crystal systems, packaged data files and inputs must give byte-identical "
                 "output files (sha256) and the same file set as a fresh canonical process; an audit hook (sys.addaudithook) logs "
                 "every open so that reads of unrelated cwd entries or of unnamed files in the data directory, and writes of "
                 "undocumented names, are reported. In-process histories: random operation sequences over two calculators on "
                 "different data sets (construct, read any of ~60 properties, re-read, write_output once or twice, construct a "
                 "third, fill a table twice) with every value/file compared bit-wise with a fresh-process digest; module-level "
                 "state snapshotted. Idempotence of fill_cij / apply_symetry_on_elast_data on all nine systems.",
        "note": "Interleavings are sequential (the code has no threads). Number of distinct lazy-evaluation orders observed is reported.",
        "technique": "runtime monitoring: process-level audit hook + recorded operation histories checked against fresh-process digests",
    },
    "C15": {
        "level": "write_output() of real runs into a scratch cwd with an output section covering every keyword (aliases rotated) of "
                 "both bases; every file is parsed by the oracle's own reader: file set = documented pattern x available components, "
                 "row labels T_MIN+k DT (k<NT), column labels P_MIN+j DELTA_P GPa or grid volumes in A^3, cells = in-memory arrays x "
                 "own unit factors (1e-9), adiabatic vs isothermal decided where they differ, remaining aliases give byte-identical "
                 "files, user fname/unit overrides honoured, and `cij run` in a subprocess reproduces the same bytes.",
        "note": "The documented table is transcribed in the oracle (not read from the packaged YAML).",
        "technique": "runtime monitoring: written files re-read by an independent parser and compared with hooked in-memory results",
    },
    "C18": {
        "level": "Real `cij run-static` invocations (CliRunner, some subprocess) over modes none/volume/pressure x grid sizes "
                 "11/51/201/401 x with/without table, crystal system, --cellmass, --delta-p-sample on generated BM3 data; stdout is "
                 "parsed and each row is related to the oracle's own second-order finite-strain fit: P = -dE_fit/dV (tolerance = "
                 "discretisation bound of the command's numerical derivative computed from the oracle's third derivative, first-"
                 "order at the two end rows), F = fit at the reported V (input energies in mode none), units, density, moduli = own "
                 "fit at the row volume (symmetry-filled), VRH and v_p/v_s/v_phi as in C07, pressure rows at the requested values.",
        "note": "pandas prints six decimals; tolerances include that and its propagation through dc/dV.",
        "technique": "runtime monitoring: parsed command output vs independent EoS/elasticity oracle",
    },
    "C19": {
        "level": "Real `cij extract` / `cij extract-geotherm` run in scratch directories holding tables of known smooth f(T,P) "
                 "(pandas layout and the oracle's own layout, with distractor files) and tables written by the real writer: the "
                 "printed row/column must be the nearest by the oracle's own search (on-grid, between, below and above range), "
                 "labelled by the other coordinate, columns in request order; along geotherms node values must equal the table, "
                 "own columns pass through, and the off-node error must at least halve per 2x refinement (three levels) and end "
                 "below 1e-3.",
        "note": "Convergence is restated as bounded progress over three refinement levels (an unbounded 'converges' cannot be observed).",
        "technique": "runtime monitoring: command output vs generating function; bounded-progress refinement check",
    },
})


# additions made while strengthening the checks against independently written breaks (DESIGN.md section 12)
_EXTRA = {
    "C01": " Object histories are part of the workload: the adiabatic value is read (twice) and the isothermal results must be bit-identical afterwards, "
           "and every third case of a worker re-uses the (T,V) grid, q-point/atom counts, weights and (every second time) strain fractions of the previous case with a new spectrum "
           "(state kept between calculations); the calculator object itself is re-used with a shifted temperature grid. The references are computed from the strain fractions the harness handed to the constructor, not from what the object keeps; a tenth of the spectra carry q-point weights given as truncated three-decimal fractions (sum 0.992-1).",
    "C02": " Every third case re-uses the (T,V) grid, array shapes, weights and (every second time) strain fractions of the previous case with a new spectrum (module-level memoisation would show); "
           "every fifth case has one negative strain fraction (an axis that lengthens under compression), so that off-diagonal gaps of both signs are judged; the returned value_adiabatic - value_isothermal is judged at the boundary as well as at the hook (an override in a subclass bypasses the hook); two to six large cases (100 temperatures x 80 volumes x 8 q-points x 36 modes, grid starting at 0 K or 300 K) are part of both tiers.",
    "C03": " Rotated strain fractions are requested for float, integer-typed (whole-number proportions), non-contiguous and read-only strain arrays and for a single strain triple.",
    "C04": " Strain-field classes include series that cross at exactly one grid volume and a field that is isotropic at one volume only; requests are handed over as list, tuple, generator, iterator and dict view; one class has two strain series running through the same values in opposite directions along the volumes. Axis relabelling is checked on the isothermal and on the adiabatic tensor; the de-duplication window is detected from every parameter set the scheduler created.",
    "C05": " Static tables are tabulated on their own volume sets (same, shifted, different count); input files carry user-chosen names / sub-directories and the settings are "
           "addressed by absolute and relative paths; a quarter of the data sets are run a second time in the same process under another volume_ratio and T grid and judged again; "
           "a generic-data class uses the oracle's own least-squares polynomial as reference; the shipped akimotoite example is judged by the second reference with its static part isolated as M(2c)-M(c). Total minus static pressure is judged against the oracle's own "
           "-d/dV of the configured-order finite-strain fit of F_vib(T,V_i); E(V) carries 4th/5th-order finite-strain terms in 40 % of the data sets and qha.settings.order runs over 2-5; the rows of the static table (with their lattice rows) are listed largest-volume-first, smallest-first or unordered.",
    "C06": " Reads served from a memo (no conversion event) are still judged by value; after write_output (including the p and v tables) P(T,V), V(T,P), the identity and one converted modulus are re-checked. Half of the data sets have E(V) that no cubic reproduces, the EoS order runs over 2-5 and every sixth data set is a static-only run.",
    "C07": " The stiffness field is injected into a real Calculator object (no __init__), and for every eighth field all volume-base tables are written and the judge runs again; the object carries the effective configuration of a settings file, "
           "with the symmetry options (drop_atol, residual_atol, ignore flags) at their defaults or at other admissible values; compliances are also read by name (s11, s11s, s11t) "
           "and judged against the inverse of the reported stiffness of the corresponding kind; a quarter of the fields carry components the declared crystal system forbids (as ignore_residuals lets through).",
    "C08": " Tables carry default, offset, shuffled, volume-valued and string row indexes, and each case fills the same supplied set a second time with the columns in another order; an integer-typed whole-number column next to decimal columns, "
           "and components that keep one sign and vanish at one end of the tabulated range (filled with the default and with larger drop tolerances), are part of the data.",
    "C09": " Row-index variants and the command-line flags --ignore-rank / --ignore-residuals are part of the presentation and refusal sweeps; drop-tolerance tables include components that cross the tolerance from one volume to the next (kept, entries intact).",
    "C10": " Acceptance is decided exhaustively for every two-digit spelling over 0-9 and every four-digit spelling over 0-4, as string, integer and separate arguments.",
    "C11": " Sampled-volume counts 4-12 including 7, 9, 10; all cases of one (method, count, order) run one after the other in one process on different volume sets, each exact case followed by a volume set with the same end volumes and count but other interior volumes; the sampled range in ln V runs over 0.3, 0.2, 0.14, 0.1 and V_max up to 3000 bohr^3 (conditioning of real input files). The tolerance follows the conditioning of the problem, measured with all volumes divided by their geometric mean; the result must not depend on that change of unit.",
    "C12": " Every third configuration is followed, in the same process and on the same data, by a run on a shifted temperature grid of identical shape; c^S(0) = c^T(0) and the continuity of c^S towards T = 0 are judged as well; a large-grid class (1000-2000 temperature rows from T=0 in steps of 0.25-1 K, 40-280 MB per (T,V,q,mode) array) is part of both tiers; a fifth of the data sets list a q-point of weight zero; EoS orders 2-5 and non-cubic E(V) as in C05; the output sampling intervals are given as the grid steps, left out (packaged defaults) or given as multiples.",
    "C13": " Two thirds of the data sets carry generic (non power-law) spectra so that the choice of interpolation nodes matters; averages are compared where the stiffness is well "
           "conditioned and adiabatic values where the rounding uncertainty of the QHA heat capacity (4 eps |F| T / DT^2) is below 1e-7 of C_V.",
    "C14": " Working directories always contain entries named like the run's own crystal system and like its configured input files; in-process histories include dict-form output "
           "entries with unit / file-name overrides, and a calculation on the input files of an earlier one with exactly one setting changed (volume_ratio, order, T_MIN, interpolator, EoS order, NT, DT, P_MIN); refilling a redundant table that is consistent only within the "
           "residual tolerance may move it by no more than its remaining distance from the invariant subspace; half of the settings carry extra entries spelled like grid keywords in another letter case.",
    "C15": " DT_SAMPLE / DELTA_P_SAMPLE are drawn as 1-5x the grid steps (tables must not be thinned); pressure-base reference arrays are produced by the oracle's own conversion of the "
           "volume-base tensors rather than read back from the pressure-base interface; a third of the grids use pressures as people type them (P_MIN with two decimals, DELTA_P with one or none).",
    "C17": " One phonon file name is rewritten again and again with data sets of identical shape (and size) before being read, and overwritten straight after reading (same second, a quarter of the time with the old mtime kept). The fill command is also run on redundant tables with noise below the residual tolerance (or of any size with "
           "--ignore-residuals), the relations being given as a user-written file so that the oracle computes the least-squares filling of the input itself; tables are listed largest-volume-first, smallest-first and unordered, and the lattice block is compared row by row; a fifth of the fill-command runs pass --drop-atol 0.5 / 1.5 with a component that vanishes at one end of the table.",
    "C18": " Pressure intervals are drawn both as arbitrary floats and as decimal fractions (0.1, 0.25, 0.4 ...) with the sampling interval an exact decimal multiple (0.3 of 0.1).",
    "C19": " Every scratch directory holds the whole bm_V/bm_VRH/G_V/G_VRH/v/v_p/v_s family of tables; geotherm files are written with integer literals in half of the cases; "
           "non-finite cells of real tables must come back as they are; requests cover both halves of the first and last interval and the neighbourhood of a node at exactly 0 (T_MIN = 0, P_MIN = 0, zero inside); geotherm files carry whole-number columns (none / T / T+P / P) and further columns named almost like the coordinates (T_hot, T(C), P_lith ...).",
    "C20": " Displacement norms span 1e-9..1e6 and masses are given in amu, kg, g or electron masses; matdyn files are regenerated under one file name and loaded by relative name from different directories; the mass container of a conversion is edited in place and the conversion repeated.",
}
for _k, _v in _EXTRA.items():
    TEXT[_k]["level"] += _v
