"""Wording of MANIFEST.json entries, one per implemented check."""

TEXT = {
    "C10": {
        "level": "Runtime monitoring of the real constructors over the complete finite domain: every one of the 81 index "
                 "tuples and 36 Voigt pairs in every spelling (ints, packed int, string, numpy ints, alternative constructors) "
                 "is executed; all pairwise equalities/hashes are compared with orbits computed by closure under the three "
                 "tensor symmetries; views, round trips, multiplicities (orbit sizes), the 3/3/15 classification and the "
                 "out-of-range ring are checked. Exhaustive for the stated domain, so a held verdict is complete for it.",
        "note": "Trusts CPython tuple hashing/equality. The oracle derives orbits by closure, not through any Voigt table shared with the code.",
        "technique": "runtime monitoring: exhaustive execution of the real constructors against an orbit oracle",
    },
}

TEXT.update({
    "C03": {
        "level": "The real ShearElasticModulusPhononContribution is executed for all 15 shear-type keys on all 21 canonical basis "
                 "tensors (complete for the linear map) plus random tensors, tensor fields and linearity probes; spy dictionaries "
                 "record every component it reads and refuse the target; the frame it chose is checked to be orthogonal and "
                 "diagonalising, and the oracle rotates the full 3x3x3x3 tensor into it. Rotated strains are compared with "
                 "diag(T^T diag(e) T) and re-run with permuted/sign-flipped eigenvectors. Exactness to 1e-12.",
        "note": "Linearity is monitored on random pairs rather than proved; the frame T is the solver's own (the property says so).",
        "technique": "runtime monitoring: spy-dictionary hooks on the real solver + full-tensor rotation oracle over a complete basis",
    },
    "C08": {
        "level": "Static half: for each of the nine systems the relation matrix that the real parser hands to sympy.linear_eq_to_matrix "
                 "is captured during a real fill_cij call and compared, by exact rational rank computations, with the invariant "
                 "subspace of the Laue group built from rotation generators (both inclusions) - complete. Dynamic half: generated "
                 "symmetry-consistent tables (each basis vector of the invariant subspace and random combinations, 1-12 rows, "
                 "minimal sufficient subsets and supersets, via fill_cij and apply_symetry_on_elast_data) must come back as the "
                 "invariant tensor (1e-9), with vanishing components omitted.",
        "note": "Trusts sympy exact arithmetic and the textbook Laue generators in the stated setting (dimensions 21/13/9/7/6/7/6/5/3 cross-checked).",
        "technique": "runtime monitoring: captured parser output vs exact group-theory oracle; generated-table differential check",
    },
    "C09": {
        "level": "Generated tables drive the real fill_cij / `cij fill`: sufficiency decided by an independent rank computation on the "
                 "Laue-invariant subspace, inconsistencies injected away from the threshold (>=5 GPa must refuse, <=0.01 GPa must "
                 "accept), all four flag combinations, zero-by-symmetry components given non-zero values; on acceptance supplied "
                 "values/relations are bounded by sqrt(residual_atol), non-modulus columns (incl. all-zero) must survive, drop "
                 "tolerance is probed on both sides; presentation variants (order, case, int dtype, explicit defaults) must agree; "
                 "working directories containing directories named like systems and user-written relation files (by absolute and "
                 "relative path) are exercised in-process and through the real command in subprocesses.",
        "note": "Refusal oracle assumes relations == Laue invariants (that is C08). Perturbations inside (0.01, 5) GPa are not judged.",
        "technique": "runtime monitoring: outcome classification of the real function against a group-theoretic refusal oracle, metamorphic presentation/environment runs",
    },
    "C16": {
        "level": "icontract post-conditions (leaf-path merge oracle, inputs untouched) wrap the real update_config so that recursion and "
                 "apply_default_config go through them; thousands of generated nested dictionaries including every shape conflict, "
                 "sparse overrides of the packaged defaults, idempotence; YAML/JSON spellings through the real read_config; the "
                 "real validate_config is driven with every documented field set to accepted and rejected values on several valid "
                 "bases, missing sections, and the shipped files.",
        "note": "Empty-dict-versus-scalar conflicts are skipped (the statement does not pin them). Accept/reject tables are a transcription of the documented schema constraints.",
        "technique": "runtime monitoring: icontract contracts on the real merge + single-field perturbation sweep of the real validator",
    },
    "C20": {
        "level": "The real evec_sort, evec_disp2eig and evec_load are executed on generated unitary bases (real/complex, dim 2-60, "
                 "permutations, phases, perturbations up to 5 % in 2-norm, four container presentations), unrelated bases "
                 "(permutation-of-input invariant), mismatched dimensions (must raise), displacement sets with arbitrary norms and "
                 "masses, and matdyn-layout files written by the oracle's own Fortran-format writer (every value compared).",
        "note": "Perturbation domain chosen so that the correct assignment is forced (true overlaps >= 0.95, false <= 0.05).",
        "technique": "runtime monitoring: generated-input differential checks with unique tokens identifying the applied permutation",
    },
})
