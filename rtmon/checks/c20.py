"""C20 - eigenvector tools: sort, displacement->eigenvector, matdyn loader."""
import os
import tempfile

import numpy

from ..trace import CallCounter
from ..runner import classify_exception, exc_site, exc_text


def run(ctx):
    cc = CallCounter().start()
    try:
        _sort(ctx)
        _disp2eig(ctx)
        _load(ctx)
    finally:
        cc.stop()
    cc.report(ctx, ["evec_sort.py:evec_sort", "evec_disp2eig.py:evec_disp2eig", "evec_load.py:evec_load",
                    "evec_load.py:_read_vecs", "evec_load.py:_read_modes", "evec_load.py:_read_q_points"])


def unitary(rng, n, complex_):
    a = rng.normal(size=(n, n))
    if complex_:
        a = a + 1j * rng.normal(size=(n, n))
    q, r = numpy.linalg.qr(a)
    return q * (numpy.diag(r) / numpy.abs(numpy.diag(r)))[None, :]


def present(m, how):
    if how == "ndarray":
        return numpy.array(m)
    if how == "list-of-lists":
        return [list(r) for r in m]
    if how == "list-of-arrays":
        return [numpy.array(r) for r in m]
    return tuple(numpy.array(r) for r in m)


def _sort(ctx):
    from cij.misc.evec_sort import evec_sort
    n_cases = ctx.pick(400, 200000)
    for i in range(n_cases):
        if not ctx.mine(i, f"sort{i}"):
            continue
        rng = ctx.rng("sort", i)
        n = int(rng.integers(2, 61)) if i % 5 else int(rng.choice([2, 3, 60]))
        cplx = bool(i % 2)
        base = unitary(rng, n, cplx)                     # rows are the base vectors
        perm = rng.permutation(n)
        phases = numpy.exp(1j * rng.uniform(0, 2 * numpy.pi, n)) if cplx else rng.choice([-1.0, 1.0], n)
        eps = float(rng.choice([0.0, 1e-6, 0.01, 0.05]))
        E = rng.normal(size=(n, n)) + (1j * rng.normal(size=(n, n)) if cplx else 0)
        s = numpy.linalg.norm(E, 2)
        E = E / s * eps if s > 0 else E * 0
        target = phases[:, None] * (base[perm] @ (numpy.eye(n) + E))   # target[j] ~ phase_j * base[perm[j]]
        items = [f"item{j}-{int(rng.integers(1e9))}" for j in range(n)]
        how = ["ndarray", "list-of-lists", "list-of-arrays", "tuple-of-arrays"][i % 4]
        cls = f"{'complex' if cplx else 'real'}-eps{eps:g}"
        case_id = f"sort{i}"
        try:
            got = evec_sort(list(items), present(target, how), present(base, how))
        except Exception as exc:
            if classify_exception(exc) == "code":
                ctx.violation(f"sort-raises:{type(exc).__name__}:{how}", f"n={n} {cls} {how}\n{exc_text(exc)}", case_id, {"n": n, "how": how})
            else:
                ctx.harness_error("C20.sort", exc)
            continue
        want = [None] * n
        for j in range(n):
            want[perm[j]] = items[j]
        nontriv = not numpy.array_equal(perm, numpy.arange(n))
        ctx.evaluation("sort-" + cls, (n, cplx, eps, tuple(perm[:6]), how), nontrivial=nontriv,
                       sample={"n": n, "complex": cplx, "perturbation_2norm": eps, "perm_head": perm[:6], "presentation": how})
        if sorted(map(str, got)) != sorted(items) or len(got) != n:
            ctx.violation(f"sort:not-a-permutation:{cls}", f"n={n}: result {got[:8]}... is not a permutation of the input", case_id, {"n": n})
        elif list(got) != want:
            wrong = sum(1 for x, y in zip(got, want) if x != y)
            ctx.violation(f"sort:wrong-position:{'complex' if cplx else 'real'}", f"n={n} {cls}: {wrong} items misplaced", case_id, {"n": n, "perm": perm})
    # unrelated bases: still a permutation
    for i in range(ctx.pick(60, 20000)):
        if not ctx.mine(i, f"unrel{i}"):
            continue
        rng = ctx.rng("unrel", i)
        n = int(rng.integers(2, 40))
        cplx = bool(i % 2)
        b, t = unitary(rng, n, cplx), unitary(rng, n, cplx)
        items = list(range(100, 100 + n))
        try:
            got = evec_sort(list(items), t, b)
        except Exception as exc:
            ctx.violation(f"sort-raises-unrelated:{type(exc).__name__}", exc_text(exc), f"unrel{i}", {"n": n})
            continue
        ctx.evaluation("sort-unrelated", (n, cplx, i))
        if sorted(got, key=str) != sorted(items, key=str):
            ctx.violation("sort:not-a-permutation:unrelated", f"n={n}: {got}", f"unrel{i}", {"n": n})
    # dimension mismatches must raise
    for i in range(ctx.pick(40, 400)):
        if not ctx.mine(i, f"mism{i}"):
            continue
        rng = ctx.rng("mism", i)
        n = int(rng.integers(2, 12))
        b = unitary(rng, n, False)
        kind = ["items-short", "items-long", "target-fewer-vectors", "base-fewer-vectors", "vectors-too-long", "vectors-too-short"][i % 6]
        items, t, bb = list(range(n)), [list(r) for r in b], [list(r) for r in b]
        if kind == "items-short":
            items = items[:-1]
        elif kind == "items-long":
            items = items + [n]
        elif kind == "target-fewer-vectors":
            t = t[:-1]
        elif kind == "base-fewer-vectors":
            bb = bb[:-1]
        elif kind == "vectors-too-long":
            t = [r + [0.0] for r in t]
            bb = [r + [0.0] for r in bb]
        else:
            t = [r[:-1] for r in t]
            bb = [r[:-1] for r in bb]
        ctx.evaluation("sort-mismatch-" + kind, (n, kind, i), sample={"n": n, "mismatch": kind, "expect": "raises"})
        try:
            got = evec_sort(items, t, bb)
        except Exception:
            ctx.count("mismatch_rejections")
            continue
        ctx.violation(f"sort:mismatch-accepted:{kind}", f"n={n} {kind}: returned {got}", f"mism{i}", {"n": n, "kind": kind})
    ctx.require("mismatch_rejections", 10)


def _disp2eig(ctx):
    from cij.misc.evec_disp2eig import evec_disp2eig
    for i in range(ctx.pick(300, 200000)):
        if not ctx.mine(i, f"d2e{i}"):
            continue
        rng = ctx.rng("d2e", i)
        nat = int(rng.integers(1, 21))
        n = 3 * nat
        cplx = bool(i % 2)
        eig = unitary(rng, n, cplx)
        mass = 10 ** rng.uniform(-1, 2.5, nat) * float(rng.choice([1.0, 1.0, 1.66e-27, 1.66e-24, 1822.9]))     # amu, kg, g, electron masses: "of any unit"
        rows = n if i % 3 else int(rng.integers(1, n + 1))
        eig = eig[:rows]
        cfac = 10 ** rng.uniform(-9, 6, rows) * (numpy.exp(1j * rng.uniform(0, 2 * numpy.pi, rows)) if cplx else rng.choice([-1.0, 1.0], rows))
        disp = cfac[:, None] * eig / numpy.sqrt(numpy.repeat(mass, 3))[None, :]
        disp0 = disp.copy()
        m_arg = list(mass) if i % 2 else numpy.array(mass)
        mkind = "float"
        if i % 5 == 3 and nat >= 2:
            # masses as people type them: some whole numbers written as Python ints (12, 16) next to 15.999, 24.305 - a plain list of mixed
            # int/float entries; the integer-typed ones are placed first, last or in the middle
            whole = numpy.zeros(nat, dtype=bool)
            whole[rng.choice(nat, size=int(rng.integers(1, nat)), replace=False)] = True
            whole[[0, nat - 1, nat // 2][(i // 5) % 3]] = True
            if whole.all():
                whole[(1 + [0, nat - 1, nat // 2][(i // 5) % 3]) % nat] = False
            mass = numpy.where(whole, numpy.round(mass) + 1.0, mass)
            disp = cfac[:, None] * eig / numpy.sqrt(numpy.repeat(mass, 3))[None, :]
            disp0 = disp.copy()
            m_arg = [int(mass[j]) if whole[j] else float(mass[j]) for j in range(nat)]
            mkind = "mixed-int-float"
        case_id = f"d2e{i}"
        try:
            got = evec_disp2eig(disp, m_arg)
        except Exception as exc:
            if classify_exception(exc) == "code":
                ctx.violation(f"disp2eig-raises:{type(exc).__name__}", f"nat={nat} rows={rows}\n{exc_text(exc)}", case_id, {"nat": nat})
            else:
                ctx.harness_error("C20.disp2eig", exc)
            continue
        ctx.evaluation(f"disp2eig-{'complex' if cplx else 'real'}-{'square' if rows == n else 'partial'}" + ("" if mkind == "float" else "-masses:" + mkind), (nat, rows, cplx, i),
                       nontrivial=rows >= 1 and nat >= 1, sample={"atoms": nat, "rows": rows, "complex": cplx, "mass_head": mass[:3]})
        got = numpy.asarray(got)
        if got.shape != disp0.shape:
            ctx.violation("disp2eig:shape", f"shape {got.shape} != {disp0.shape}", case_id)
            continue
        norms = numpy.sqrt((numpy.abs(got) ** 2).sum(axis=1))
        ctx.maxi("disp2eig_norm_err/tol", numpy.abs(norms - 1).max() / 1e-10)
        if numpy.abs(norms - 1).max() > 1e-10:
            ctx.violation("disp2eig:not-unit-norm", f"row norms {norms[:4]}", case_id, {"nat": nat})
        ph = cfac / numpy.abs(cfac)
        err = numpy.abs(got - ph[:, None] * eig).max()
        ctx.maxi("disp2eig_value_err/tol", err / 1e-10)
        if err > 1e-10:
            ctx.violation("disp2eig:not-the-eigenvector", f"differs from the mass-weighted eigenvector by {err:.2e} (nat={nat})", case_id,
                          {"nat": nat, "mass": mass})
        gram = numpy.conj(got) @ got.T
        if numpy.abs(gram - numpy.eye(rows)).max() > 1e-10:
            ctx.violation("disp2eig:not-orthonormal", f"Gram matrix deviates by {numpy.abs(gram - numpy.eye(rows)).max():.2e}", case_id, {"nat": nat})
        if not numpy.array_equal(disp, disp0):
            ctx.violation("disp2eig:input-mutated", "the displacement array was modified in place", case_id)
        # history: the caller edits the very same mass container in place (isotope substitution, unit change) and converts again
        if i % 2 == 0 or i % 3 == 0:
            how = ["one-isotope", "rescaled", "permuted"][i % 3]
            mass2 = mass.copy()
            if how == "one-isotope":
                mass2[int(rng.integers(0, nat))] *= 18.0 / 16.0
            elif how == "rescaled":
                mass2 *= float(rng.choice([1822.9, 1.66e-27, 0.5]))
            else:
                mass2 = mass2[::-1].copy() * (1 + 0.03 * numpy.arange(nat))
            for j in range(nat):
                m_arg[j] = float(mass2[j])
            disp2 = cfac[:, None] * eig / numpy.sqrt(numpy.repeat(mass2, 3))[None, :]
            try:
                got2 = numpy.asarray(evec_disp2eig(disp2, m_arg))
            except Exception as exc:
                if classify_exception(exc) == "code":
                    ctx.violation(f"disp2eig-raises:{type(exc).__name__}:second-call", f"nat={nat} rows={rows}\n{exc_text(exc)}", case_id, {"nat": nat})
                else:
                    ctx.harness_error("C20.disp2eig2", exc)
                continue
            ctx.evaluation(f"disp2eig-same-mass-container-edited-in-place-{how}", (nat, rows, cplx, i), nontrivial=True)
            err2 = numpy.abs(got2 - ph[:, None] * eig).max() if got2.shape == disp0.shape else numpy.inf
            ctx.maxi("disp2eig_value_err/tol", err2 / 1e-10)
            if err2 > 1e-10:
                ctx.violation("disp2eig:not-the-eigenvector:after-masses-edited-in-place", f"second conversion with the same mass container edited in place "
                              f"({how}) differs from the mass-weighted eigenvector by {err2:.2e} (nat={nat})", case_id, {"nat": nat, "mass_first": mass, "mass_second": mass2})
    for i in range(ctx.pick(30, 300)):
        if not ctx.mine(i, f"d2ebad{i}"):
            continue
        rng = ctx.rng("d2ebad", i)
        nat = int(rng.integers(1, 8))
        w = 3 * nat + int(rng.choice([-2, -1, 1, 2, 3]))
        if w < 1:
            w = 3 * nat + 1
        a = rng.normal(size=(int(rng.integers(1, 5)), w))
        ctx.evaluation("disp2eig-mismatch", (nat, w, i), sample={"atoms": nat, "width": w, "expect": "raises"})
        try:
            got = evec_disp2eig(a, list(rng.uniform(1, 50, nat)))
        except Exception:
            ctx.count("disp2eig_rejections")
            continue
        ctx.violation("disp2eig:mismatch-accepted", f"width {w} for {nat} atoms accepted", f"d2ebad{i}", {"nat": nat, "w": w})
    ctx.require("disp2eig_rejections", 5)


def write_matdyn(path, qpts, rng, cplx=True):
    """Own writer in matdyn.x's Fortran layout; returns what was printed."""
    printed = []
    with open(path, "w") as fp:
        for q, modes in qpts:
            fp.write("     diagonalizing the dynamical matrix ...\n\n")
            fp.write(" q = %12.4f%12.4f%12.4f\n" % tuple(q))
            fp.write(" " + "*" * 74 + "\n")
            pm = []
            for idx, (thz, cm1, vec) in enumerate(modes, 1):
                fp.write("     freq (%5d) =%15.6f [THz] =%15.6f [cm-1]\n" % (idx, thz, cm1))
                for a in range(len(vec) // 3):
                    x, y, z = vec[3 * a:3 * a + 3]
                    fp.write(" (" + "".join("%10.6f %10.6f   " % (c.real, c.imag) for c in (x, y, z)) + ")\n")
                pm.append((idx, float("%.6f" % thz), float("%.6f" % cm1),
                           [complex(float("%.6f" % c.real), float("%.6f" % c.imag)) for c in vec]))
            fp.write(" " + "*" * 74 + "\n")
            printed.append(([float("%.4f" % x) for x in q], pm))
    return printed


def _load(ctx):
    from cij.misc.evec_load import evec_load
    tmp = tempfile.mkdtemp(prefix="c20-")
    try:
        for i in range(ctx.pick(40, 15000)):
            if not ctx.mine(i, f"load{i}"):
                continue
            rng = ctx.rng("load", i)
            nq = int(rng.integers(1, 7)) if i % 3 else 2
            nat = int(rng.integers(1, 21)) if i % 3 else 4
            np_ = 3 * nat
            qpts = []
            for _ in range(nq):
                q = rng.uniform(-1, 1, 3)
                modes = []
                for m in range(np_):
                    cm1 = float(rng.uniform(-50, 4000))
                    vec = rng.uniform(-0.999999, 0.999999, np_) + 1j * rng.uniform(-0.999999, 0.999999, np_)
                    modes.append((cm1 / 33.35641, cm1, vec))
                qpts.append((q, modes))
            # history: the same file name is used again and again (regenerated in place, or the same relative name in another
            # directory), with the same counts - what is returned must be what the file holds *now*
            sub = os.path.join(tmp, f"vol{i % 3}")
            os.makedirs(sub, exist_ok=True)
            path = os.path.join(sub, "matdyn.eig") if i % 2 else os.path.join(tmp, "matdyn.eig")
            printed = write_matdyn(path, qpts, rng)
            case_id = f"load{i}"
            try:
                if i % 4 == 1:
                    here = os.getcwd()
                    os.chdir(sub)
                    try:
                        got = evec_load("matdyn.eig", nq, np_)
                    finally:
                        os.chdir(here)
                else:
                    got = evec_load(path, nq, np_)
            except Exception as exc:
                if classify_exception(exc) == "code":
                    ctx.violation(f"load-raises:{type(exc).__name__}", f"nq={nq} modes={np_}\n{exc_text(exc)}", case_id, {"nq": nq, "np": np_})
                else:
                    ctx.harness_error("C20.load", exc)
                continue
            finally:
                os.unlink(path)
            ctx.evaluation("load", (nq, np_, i), sample={"nq": nq, "modes": np_, "first_q": printed[0][0], "first_freq_cm1": printed[0][1][0][2]})
            if len(got) != nq:
                ctx.violation("load:q-count", f"{len(got)} q-points returned, {nq} printed", case_id)
                continue
            bad = None
            for (gq, gm), (pq, pm) in zip(got, printed):
                if [float(x) for x in gq] != pq:
                    bad = f"q-vector {gq} != printed {pq}"
                    break
                if len(gm) != len(pm):
                    bad = f"{len(gm)} modes returned, {len(pm)} printed"
                    break
                for ((gid, gthz, gcm), gvec), (pid, pthz, pcm, pvec) in zip(gm, pm):
                    if gid != pid or gthz != pthz or gcm != pcm:
                        bad = f"mode header ({gid},{gthz},{gcm}) != printed ({pid},{pthz},{pcm})"
                        break
                    if len(gvec) != len(pvec) or any(complex(a) != b for a, b in zip(gvec, pvec)):
                        bad = f"vector components of mode {pid} differ from the printed ones"
                        break
                if bad:
                    break
            if bad:
                ctx.violation("load:" + bad.split(" ")[0], bad, case_id, {"nq": nq, "np": np_})
    finally:
        import shutil
        shutil.rmtree(tmp, ignore_errors=True)
