"""C01 - non-shear phonon moduli are strain derivatives of F_ph (duck-typed calculator)."""
import numpy

from ..monitors import NonShearMonitor
from ..workloads import spec as W
from ..trace import CallCounter
from ..runner import classify_exception, exc_site, exc_text

HOSTILE = [None, None, None, "weights-as-rounded-fractions", "near-degenerate", "huge-weight", "high-frequencies", "low-T", "gamma-only", "one-atom"]
FILLS = ["zero", "small-negative", "garbage"]


def gen_case(ctx, i, reuse=None, big=False):
    """``reuse`` = (v0, t, v) of an earlier case: a different spectrum on the very same (T,V) grid (process history)."""
    rng = ctx.rng("case", i)
    hostile = HOSTILE[i % len(HOSTILE)]
    nq = 1 if hostile == "gamma-only" else None
    natoms = 1 if hostile == "one-atom" else None
    if reuse is not None and len(reuse) > 6:
        # the same numbers of q-points and atoms as the earlier case, so that every array has the shape it had there
        nq, natoms = (nq or reuse[5]), (natoms or reuse[6])
    if big:
        nq, natoms, hostile = 8, 12, None
    spec = W.gen_spectrum(rng, nq=nq, natoms=natoms, hostile=hostile)
    t, v = W.gen_grids(rng, spec, hostile=hostile)
    if big:
        # size is an input dimension: 100 temperatures x 80 volumes x 8 q-points x 36 modes (18 MB per array), the grid starting
        # at 0 K or at 300 K
        t = (0.0 if i % 2 else 300.0) + 25.0 * numpy.arange(100)
        v = spec.v0 * numpy.exp(numpy.linspace(0.1, -0.22, 80))
    if reuse is not None:
        spec.v0, t, v = reuse[0], reuse[1].copy(), reuse[2].copy()
        if len(reuse) > 3 and reuse[3] is not None and len(reuse[3]) == spec.nq:
            spec.weights = reuse[3].copy()        # ... and, when the q-point count allows, with the same weights
    strains = W.gen_strains(rng, len(v))
    if reuse is not None and len(reuse) > 4 and reuse[4] is not None and i % 2:
        strains = reuse[4].copy()                  # ... and the same strain fractions: only the spectrum differs
    fill = FILLS[i % 3]
    calc = W.make_calc(rng, spec, t, v, gamma_fill=fill)
    calc._oracle_spectrum = None if big else spec        # (large grids: the closed-form second reference only; the numerical-derivative one is too slow)
    return rng, hostile, spec, t, v, strains, fill, calc


def run(ctx):
    cc = CallCounter().start()
    current = {"id": None}
    mon = NonShearMonitor(ctx, lambda: current["id"], judge_gap=False).attach()
    try:
        import cij.core.phonon_contribution.nonshear as ns
        ncases = ctx.pick(70, 100000)
        prev = None
        for i in range(ncases):
            case_id = f"case{i}"
            if not ctx.mine(i, case_id):
                continue
            current["id"] = case_id
            # every third case of a shard re-uses the (T,V) grid of the case before it with a new spectrum, weights and strains
            reuse = prev if (prev is not None and (i // ctx.nshards) % 3 == 1) else None
            rng, hostile, spec, t, v, strains, fill, calc = gen_case(ctx, i, reuse=reuse)
            if reuse is not None:
                hostile = (hostile or "generic") + "+grid-of-previous-case"
            prev = (spec.v0, t, v, spec.weights, strains, spec.nq, spec.natoms)
            pairs = [(0, 0), (1, 1), (2, 2), (0, 1), (0, 2), (1, 2)]
            nontriv_modes = spec.mask.sum() > 0
            for (a, b) in pairs:
                cls_ = ns.LongitudinalElasticModulusPhononContribution if a == b else ns.OffDiagonalElasticModulusPhononContribution
                kind = "longitudinal" if a == b else "offdiag"
                before = mon.objects_judged
                try:
                    with numpy.errstate(all="ignore"):
                        obj = cls_(calc, (strains[:, a], strains[:, b]))
                        obj._oracle_e = (strains[:, a].copy(), strains[:, b].copy())      # what was handed over, whatever the object keeps
                        val = obj.value_isothermal
                except Exception as exc:
                    if classify_exception(exc) == "code":
                        ctx.violation(f"{kind}:raises:{type(exc).__name__}:{exc_site(exc)}", exc_text(exc), case_id)
                    else:
                        ctx.harness_error("C01.case", exc)
                    continue
                if mon.objects_judged == before:
                    ctx.inconc("value_isothermal was computed without the monitor seeing it (hook escaped)")
                # object history: reading other results (adiabatic value, parts) must leave the isothermal results as they were
                try:
                    first = {nm: numpy.array(getattr(obj, nm), copy=True) for nm in ("value_isothermal", "zero_point_contribution", "thermal_contribution")}
                    with numpy.errstate(all="ignore"):
                        for _ in range(2):
                            obj.value_adiabatic
                    for nm, arr in first.items():
                        if not numpy.array_equal(numpy.asarray(getattr(obj, nm)), arr, equal_nan=True):
                            ctx.violation(f"{kind}:{nm}:changes-after-reading-adiabatic", f"{nm} of a c{a+1}{b+1} object differs after value_adiabatic was read "
                                          f"(max change {numpy.nanmax(numpy.abs(numpy.asarray(getattr(obj, nm)) - arr)):.3g})", case_id)
                    ctx.count("reread_after_adiabatic")
                except Exception as exc:
                    if classify_exception(exc) == "code":
                        ctx.violation(f"{kind}:adiabatic-read-raises:{type(exc).__name__}", exc_text(exc), case_id)
                    else:
                        ctx.harness_error("C01.reread", exc)
                # history: the same calculator object carries a new temperature grid of the same shape (and a new pressure field);
                # contribution objects created from it afterwards belong to the new grid
                if (a, b) in ((0, 0), (0, 1)) and i % 2 == 0:
                    try:
                        old_t, old_p = calc.t_array, calc.qha_calculator.volume_base.pressures
                        calc.t_array = numpy.where(old_t > 0, old_t * 1.013 + 0.7, old_t)
                        calc.qha_calculator.volume_base.pressures = old_p * 1.01
                        calc.__dict__.pop("_oracle_cache", None)
                        with numpy.errstate(all="ignore"):
                            cls_(calc, (strains[:, a], strains[:, b])).value_isothermal      # judged by the monitor on the new grid
                        ctx.count("objects_on_a_reused_calculator")
                    except Exception as exc:
                        if classify_exception(exc) == "code":
                            ctx.violation(f"{kind}:raises-on-reused-calculator:{type(exc).__name__}", exc_text(exc), case_id)
                        else:
                            ctx.harness_error("C01.reuse", exc)
                    finally:
                        calc.t_array, calc.qha_calculator.volume_base.pressures = old_t, old_p
                        calc.__dict__.pop("_oracle_cache", None)
                nontriv = bool(nontriv_modes and (t > 0).any() and numpy.any(numpy.asarray(val) != 0))
                ctx.evaluation(f"{kind}|{hostile or 'generic'}|gamma-slots={fill}", (W.spec_digest(spec, t, v), a, b), nontrivial=nontriv,
                               sample={"component": f"c{a+1}{b+1}", "nq": spec.nq, "atoms": spec.natoms, "T": t[:5], "V_head": v[:3],
                                       "strain_fractions_row0": strains[0], "weights_head": spec.weights[:3],
                                       "value_isothermal[0,0]": float(numpy.asarray(val)[0, 0])})
    finally:
        mon.detach()
        cc.stop()
    cc.report(ctx, ["nonshear.py:average_over_modes", "nonshear.py:clear_gamma_point",
                    "nonshear.py:LongitudinalElasticModulusPhononContribution.Q1",
                    "nonshear.py:LongitudinalElasticModulusPhononContribution.Q2",
                    "nonshear.py:LongitudinalElasticModulusPhononContribution.zero_point_contribution",
                    "nonshear.py:OffDiagonalElasticModulusPhononContribution.zero_point_contribution",
                    "nonshear.py:OffDiagonalElasticModulusPhononContribution.value_isothermal"])
    ctx.require("monitor:nonshear_isothermal_objects", 6)
