"""C10 - Voigt/standard index algebra: complete finite domain, executed."""
import itertools

import numpy

from ..oracles import tensor as T
from ..trace import CallCounter


def run(ctx):
    cc = CallCounter().start()
    try:
        _run(ctx)
    finally:
        cc.stop()
    cc.report(ctx, ["voigt.py:ModulusRepresentation.create", "voigt.py:ModulusRepresentation.from_voigt",
                    "voigt.py:ModulusRepresentation.from_standard", "voigt.py:StrainRepresentation.create",
                    "voigt.py:StrainRepresentation.from_voigt", "voigt.py:StrainRepresentation.from_standard",
                    "voigt.py:ModulusRepresentation.multiplicity"])


def _spell4(t):
    i, j, k, l = t
    n = int("%d%d%d%d" % t)
    return [("4int", (i, j, k, l)), ("int4", (n,)), ("str4", ("%d%d%d%d" % t,)),
            ("4npint", tuple(numpy.int64(x) for x in t))]


def _spell2(a, b):
    return [("2int", (a, b)), ("int2", (a * 10 + b,)), ("str2", ("%d%d" % (a, b),)),
            ("2npint", (numpy.int64(a), numpy.int64(b)))]


def _run(ctx):
    from cij.util import c_, e_, s_, C_, E_, ElasticModulusCalculationType as CT
    import cij.util.voigt as V

    made = []   # (spelling-kind, args, object, oracle canonical pair)

    def make(kind, args, ctor=c_):
        try:
            return ctor(*args)
        except Exception as exc:  # in-range spelling must construct
            ctx.violation(f"construct:{kind}", f"{ctor.__name__ if hasattr(ctor,'__name__') else ctor}{args!r} raised {exc!r}",
                          case_id=None, data={"kind": kind, "args": args})
            return None

    # ---- all 81 tuples and 36 Voigt pairs in every spelling ----------------
    for t in T.ALL_TUPLES:
        for kind, args in _spell4(t):
            o = make(kind, args)
            ctx.evaluation("tuple-" + kind, (kind, t), sample={"spelling": kind, "args": args, "repr": repr(o)})
            if o is not None:
                made.append((kind, args, o, T.canon(*t), t))
    for a in range(1, 7):
        for b in range(1, 7):
            t = T.VOIGT_TO_PAIR[a] + T.VOIGT_TO_PAIR[b]
            for kind, args in _spell2(a, b):
                o = make(kind, args)
                ctx.evaluation("voigt-" + kind, (kind, a, b), sample={"spelling": kind, "args": args, "repr": repr(o)})
                if o is not None:
                    made.append((kind, args, o, (min(a, b), max(a, b)), t))
    # alternative entry points must agree with c_
    for a, b in T.VOIGT21:
        for nm, ctor in (("C_.create", C_.create), ("s_", s_), ("C_.from_voigt", C_.from_voigt)):
            o = make(nm, (a, b), ctor)
            ctx.evaluation("ctor-" + nm, (nm, a, b))
            if o is not None:
                made.append((nm, (a, b), o, (a, b), T.VOIGT_TO_PAIR[a] + T.VOIGT_TO_PAIR[b]))
    for t in T.ALL_TUPLES:
        o = make("C_.from_standard", t, C_.from_standard)
        ctx.evaluation("ctor-from_standard", t)
        if o is not None:
            made.append(("C_.from_standard", t, o, T.canon(*t), t))

    # ---- equality / hash iff same orbit (all pairs) -------------------------
    orbits = T.all_orbits()
    if len(orbits) != 21 or sum(len(o) for o in orbits) != 81:
        ctx.inconc("oracle orbit computation is broken")
        return
    orb_of = {t: o for o in orbits for t in o}
    pairs = 0
    for (k1, a1, o1, c1, t1), (k2, a2, o2, c2, t2) in itertools.combinations_with_replacement(made, 2):
        same = orb_of[t1] is orb_of[t2]
        pairs += 1
        if (o1 == o2) != same or (o2 == o1) != same:
            ctx.violation("equality-vs-orbit", f"{k1}{a1!r} == {k2}{a2!r} is {o1 == o2}, orbit says {same}",
                          data={"a": [k1, a1], "b": [k2, a2]})
        if same and hash(o1) != hash(o2):
            ctx.violation("hash-within-orbit", f"hash differs for equal spellings {k1}{a1!r} / {k2}{a2!r}",
                          data={"a": [k1, a1], "b": [k2, a2]})
        if (c1 == c2) != same:
            ctx.inconc("oracle canon disagrees with oracle orbit")
    ctx.count("pair_comparisons", pairs)
    ctx.require("pair_comparisons", 81 * 81)
    keyset = {o for _, _, o, _, _ in made}
    hashes = {hash(o) for o in keyset}
    ctx.note("distinct_keys", len(keyset))
    ctx.note("distinct_hashes", len(hashes))
    if len(keyset) != 21:
        ctx.violation("key-count", f"{len(keyset)} distinct canonical keys instead of 21")
    if len(hashes) != len(keyset):
        ctx.violation("hash-collision", f"{len(hashes)} distinct hashes for {len(keyset)} keys")
    d = {}
    for _, _, o, c, _ in made:
        d.setdefault(o, set()).add(c)
    if any(len(v) != 1 for v in d.values()):
        ctx.violation("dict-merge", "two different components share a dictionary slot")

    # ---- views, round trips, table, multiplicity, classification -----------
    table_ok = True
    for kind, args, o, (a, b), t in made:
        try:
            if tuple(int(x) for x in o.voigt) != (a, b) or tuple(int(x) for x in o.v) != (a, b):
                ctx.violation("voigt-view", f"{kind}{args!r}.voigt = {o.voigt}, expected {(a, b)}", data={"args": args})
            st = T.VOIGT_TO_PAIR[a] + T.VOIGT_TO_PAIR[b]
            if tuple(int(x) for x in o.standard) != st or tuple(int(x) for x in o.s) != st:
                ctx.violation("standard-view", f"{kind}{args!r}.standard = {o.standard}, expected {st}", data={"args": args})
            if c_(*o.voigt) != o or c_(*o.standard) != o or c_("%d%d" % tuple(o.voigt)) != o \
                    or c_("%d%d%d%d" % tuple(o.standard)) != o:
                ctx.violation("round-trip", f"{kind}{args!r} does not round-trip through its views", data={"args": args})
            m = T.multiplicity(a, b)
            if int(o.multiplicity) != m:
                ctx.violation(f"multiplicity:{T.classify(a, b)}:{'diag' if a == b else 'offdiag'}",
                              f"{kind}{args!r}.multiplicity = {o.multiplicity}, orbit size {m}", data={"args": args})
            cls = T.classify(a, b)
            flags = (bool(o.is_longitudinal), bool(o.is_off_diagonal), bool(o.is_shear))
            want = (cls == "longitudinal", cls == "off_diagonal", cls == "shear")
            if flags != want:
                ctx.violation("classification", f"{kind}{args!r}: (long,off,shear)={flags}, expected {want}", data={"args": args})
            if o.calc_type != {"longitudinal": CT.LONGITUDINAL, "off_diagonal": CT.OFF_DIAGONAL, "shear": CT.SHEAR}[cls]:
                ctx.violation("calc_type", f"{kind}{args!r}.calc_type = {o.calc_type}, expected {cls}", data={"args": args})
            ctx.count("view_checks")
        except Exception as exc:
            ctx.violation("view-raises", f"{kind}{args!r}: {exc!r}", data={"args": args})
    msum = sum(int(o.multiplicity) for o in keyset)
    ctx.note("multiplicity_sum", msum)
    if msum != 81:
        ctx.violation("multiplicity-sum", f"multiplicities sum to {msum}, not 81")
    part = [sum(1 for o in keyset if o.is_longitudinal), sum(1 for o in keyset if o.is_off_diagonal),
            sum(1 for o in keyset if o.is_shear)]
    ctx.note("partition", part)
    if part != [3, 3, 15]:
        ctx.violation("partition", f"classification partition {part}, expected [3, 3, 15]")

    # ---- strain indices ------------------------------------------------------
    for i in (1, 2, 3):
        for j in (1, 2, 3):
            v = T.PAIR_TO_VOIGT[(i, j)]
            objs = []
            for kind, args in (("2int", (i, j)), ("int2", (i * 10 + j,)), ("str2", ("%d%d" % (i, j),)),
                               ("2npint", (numpy.int64(i), numpy.int64(j)))):
                o = make("e-" + kind, args, e_)
                ctx.evaluation("strain-" + kind, (kind, i, j))
                if o is not None:
                    objs.append(o)
                    if int(o.voigt) != v or tuple(int(x) for x in o.standard) != T.VOIGT_TO_PAIR[v]:
                        ctx.violation("strain-view", f"e_{args!r}: voigt {o.voigt}, standard {o.standard}; expected {v}")
            if len(set(objs)) > 1:
                ctx.violation("strain-spellings", f"spellings of strain ({i},{j}) differ: {objs}")
    for v in range(1, 7):
        for kind, args, ctor in (("voigt-int", (v,), e_), ("voigt-str", (str(v),), None), ("from_voigt", (v,), E_.from_voigt)):
            if ctor is None:
                continue
            o = make("e-" + kind, args, ctor)
            ctx.evaluation("strain-" + kind, (kind, v))
            if o is not None and (tuple(int(x) for x in o.standard) != T.VOIGT_TO_PAIR[v] or int(o.voigt) != v):
                table_ok = False
                ctx.violation("voigt-table", f"Voigt index {v} maps to {o.standard}, expected {T.VOIGT_TO_PAIR[v]}")
    ctx.note("voigt_table_1to11_..._6to12", table_ok)
    for v, p in T.VOIGT_TO_PAIR.items():
        if tuple(V.VOIGT_TO_STANDARD.get(v, ())) != p or V.STANDARD_TO_VOIGT.get(p) != v:
            ctx.violation("lookup-tables", f"lookup tables disagree with the Voigt convention at {v}<->{p}")

    # ---- out-of-range ring must be rejected --------------------------------
    bad_c = []
    for pos in range(4):
        for badv in (0, 4, -1, 7):
            t = [1, 2, 3, 1]
            t[pos] = badv
            bad_c.append(tuple(t))
            bad_c.append(("%d%d%d%d" % tuple(t),) if badv >= 0 else None)
    for pos in range(2):
        for badv in (0, 7, -1, 8, 10):
            t = [2, 5]
            t[pos] = badv
            bad_c.append(tuple(t))
    bad_c += [(), ("",), ("1",), (1,), ("123",), (123,), (12345,), ("12345",), (1, 2, 3), (1, 2, 3, 1, 2),
              (70,), (7,), ("07",), ("17",), ("71",), (4444,), ("1141",), (1114,), (0,), (100,), (1110,), ("1a",), (None,)]
    for args in bad_c:
        if args is None:
            continue
        ctx.evaluation("out-of-range-modulus", ("bad", args), sample={"args": args, "expect": "raises"})
        try:
            o = c_(*args)
        except Exception:
            ctx.count("rejections")
            continue
        ctx.violation("out-of-range-accepted:modulus", f"c_{args!r} was accepted and gave {o!r}", data={"args": args})
    # ... exhaustively: every two-digit spelling over 0..9 and every four-digit spelling over 0..4, as string, as integer and as
    # separate arguments, is accepted exactly when all its digits are in range (1..6 resp. 1..3)
    import itertools as _it
    for digits in list(_it.product(range(10), repeat=2)) + list(_it.product(range(5), repeat=4)):
        valid = all(1 <= d_ <= (6 if len(digits) == 2 else 3) for d_ in digits)
        text = "".join(str(d_) for d_ in digits)
        spellings = [("string", (text,)), ("arguments", tuple(digits))]
        if digits[0] != 0:
            spellings.append(("integer", (int(text),)))
        for how, args in spellings:
            try:
                o = c_(*args)
                accepted = True
            except Exception:
                accepted = False
                ctx.count("rejections")
            ctx.evaluation(f"exhaustive-{len(digits)}-digit-{how}", (how, digits))
            if accepted and not valid:
                ctx.violation("out-of-range-accepted:modulus:" + how, f"c_{args!r} was accepted and gave {o!r}", data={"args": [str(a_) for a_ in args]})
            elif valid and not accepted:
                ctx.violation("valid-spelling-refused:" + how, f"c_{args!r} was refused", data={"args": [str(a_) for a_ in args]})
    bad_e = [(0,), (7,), (-1,), (10,), (44,), (14,), ("",), ("4",), ("123",), (1, 4), (0, 1), (4, 4), (1, 0), (-1, 1), (111,), ("41",)]
    for args in bad_e:
        ctx.evaluation("out-of-range-strain", ("bad-e", args))
        try:
            o = e_(*args)
            if args == ("4",):   # one-character string: documented create(str) path -> single index 4 is a Voigt index
                continue
        except Exception:
            ctx.count("rejections")
            continue
        ctx.violation("out-of-range-accepted:strain", f"e_{args!r} was accepted and gave {o!r}", data={"args": args})
    ctx.require("rejections", 40)
    ctx.require("view_checks", 400)
