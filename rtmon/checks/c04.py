"""C04 - phonon tensor assembly: complete, request-independent, ordered, isotropic limit."""
import itertools

import numpy

from ..monitors import TaskMonitor
from ..oracles import tensor as T
from ..workloads import spec as W
from ..trace import CallCounter
from ..runner import classify_exception, exc_site, exc_text

STRICT, WINDOW = 1e-10, 1e-4
ALL21 = list(T.VOIGT21)


def strain_field(rng, ntv, cls):
    if cls == "equal":
        return numpy.full((ntv, 3), 1 / 3)
    if cls in ("constant", "varying"):
        return W.gen_strains(rng, ntv, cls)
    if cls == "pairwise-equal":
        a = rng.uniform(0.15, 0.4)
        e = numpy.array([a, a, 1 - 2 * a])[rng.permutation(3)]
        return numpy.tile(e, (ntv, 1))
    if cls == "mirrored-along-the-volumes":
        # two strain series run through the same values in opposite directions along the volume grid
        a, d = float(rng.uniform(0.25, 0.33)), 0.06 / max(ntv - 1, 1)
        e1 = a + d * numpy.arange(ntv)
        e2 = e1[::-1].copy()
        return numpy.stack([e1, e2, 1 - e1 - e2], axis=1)[:, rng.permutation(3)]
    if cls in ("crossing-at-a-grid-volume", "isotropic-at-one-volume"):
        # two (or all three) strain series coincide at exactly one grid volume and differ at every other one
        k0 = int(rng.integers(0, ntv))
        k = numpy.arange(ntv) - k0
        step = 0.2 / max(ntv, 2)
        if cls == "crossing-at-a-grid-volume":
            a = float(rng.uniform(0.22, 0.36))
            e1 = a + step * k * float(rng.uniform(0.5, 1.0))
            e2 = a - step * k * float(rng.uniform(0.3, 1.0))
            e = numpy.stack([e1, e2, 1 - e1 - e2], axis=1)[:, rng.permutation(3)]
        else:
            sl = numpy.array([1.0, -0.35, -0.65])[rng.permutation(3)] * float(rng.uniform(0.5, 1.0))
            e = 1 / 3 + step * k[:, None] * sl[None, :]
            e[k0] = 1 / 3
        assert e.min() > 0.04
        return e
    if cls.startswith("near-degenerate"):
        delta = float(cls.split(":")[1])
        a = rng.uniform(0.2, 0.35)
        e = numpy.array([a, a * (1 + delta), 1 - a * (2 + delta)])
        e = e / e.sum()
        return numpy.tile(e, (ntv, 1))
    raise ValueError(cls)


def run_list(ctx, calc, strain, pairs, case_id, tag, container="list"):
    """Drive the real task list; returns (iso, adi) dicts keyed by Voigt pair, or None.
    ``container``: how the request (an Iterable of keys) is handed over."""
    from cij.core.tasks import PhononContributionTaskList
    from cij.util import c_
    keys = [c_(a, b) for a, b in pairs]
    request = {"list": lambda: keys, "tuple": lambda: tuple(keys), "generator": lambda: (k for k in keys), "iterator": lambda: iter(keys),
               "dict-keys": lambda: dict.fromkeys(keys).keys()}[container]()
    try:
        with numpy.errstate(all="ignore"):
            tl = PhononContributionTaskList(calc)
            tl.resolve(strain, request)
            tl.calculate()
            iso = tl.get_isothermal_results()
            adi = tl.get_adiabatic_results()
    except Exception as exc:
        if classify_exception(exc) == "code":
            has_shear = any(T.classify(a, b) == "shear" for a, b in pairs)
            ctx.violation(f"assembly-raises:{type(exc).__name__}:{exc_site(exc)}:{'with-shear-keys' if has_shear else 'non-shear-only'}",
                          f"{tag}: requesting {pairs} raised\n{exc_text(exc)}", case_id, {"request": pairs})
        else:
            ctx.harness_error("C04.run_list", exc)
        return None
    out_i, out_a = {}, {}
    for (a, b), k in zip(pairs, keys):
        if k not in iso or k not in adi:
            ctx.violation("completeness:key-without-value" + ("" if container in ("list", "tuple") else ":request-given-as-" + container),
                          f"{tag}: requested c{a}{b} received no value (request handed over as a {container})", case_id, {"request": pairs})
            return None
        out_i[(a, b)] = numpy.asarray(iso[k])
        out_a[(a, b)] = numpy.asarray(adi[k])
    return out_i, out_a, tl


def in_dedup_window(params_seen):
    """Did the run create two distinct non-shear parameter sets that the scheduler's approximate
    equality (numpy.allclose) merges although they are not identical?  (Merged tasks no longer
    appear in the task list, so this is decided on every parameter set the scheduler created.)"""
    ps, seen = [], set()
    for p_ in params_seen:
        if p_.calc_type.name == "SHEAR":
            continue
        k_ = (p_.calc_type.name, numpy.asarray(p_.params, float).tobytes())
        if k_ not in seen:
            seen.add(k_)
            ps.append(p_)
    for p, q in itertools.combinations(ps, 2):
        if p.calc_type != q.calc_type:
            continue
        a, b = numpy.asarray(p.params, float), numpy.asarray(q.params, float)
        d = numpy.abs(a - b).max()
        if d > 1e-12 and d < 1e-3 * numpy.abs(a).max():
            if numpy.allclose(a, b) or numpy.allclose(b, a) or d < 3e-5 * numpy.abs(a).max():
                return True
    return False


def run(ctx):
    cc = CallCounter().start()
    current = {"id": None}
    mon = TaskMonitor(ctx, lambda: current["id"]).attach()
    try:
        _run(ctx, current, mon)
    finally:
        mon.detach()
        cc.stop()
    ctx.note("distinct_task_orders_observed", len(mon.histories))
    cc.report(ctx, ["tasks.py:PhononContributionTaskList.resolve", "tasks.py:PhononContributionTaskList.calculate",
                    "tasks.py:PhononContributionTaskParams.create", "tasks.py:PhononContributionTaskParams.__eq__",
                    "tasks.py:PhononContributionTaskResults.__getitem__", "tasks.py:PhononContributionTask.get_dependencies",
                    "shear.py:ShearElasticModulusPhononContribution.get_target_elastic_modulus"])
    ctx.require("monitor:resolve_calls", 3)
    ctx.require("monitor:dependency_edges_checked", 10)
    ctx.require("monitor:store_reads", 10)


def _run(ctx, current, mon):
    nspec = ctx.pick(11, 264)
    classes = ["constant", "varying", "equal", "pairwise-equal", "near-degenerate:1e-3", "near-degenerate:1e-4",
               "near-degenerate:1e-6", "near-degenerate:1e-8", "crossing-at-a-grid-volume", "isotropic-at-one-volume",
               "mirrored-along-the-volumes"]
    for isp in range(nspec):
        case_id = f"spec{isp}"
        if not ctx.mine(isp, case_id):
            continue
        current["id"] = case_id
        rng = ctx.rng("spec", isp)
        spec = W.gen_spectrum(rng, nq=int(rng.integers(1, 4)), natoms=int(rng.integers(1, 4)))
        ntv = int(rng.integers(2, 7))
        v = spec.v0 * numpy.exp(numpy.linspace(0.1, -0.2, ntv))
        t = numpy.array([0.0, 300.0, 1500.0])[: int(rng.integers(2, 4))]
        calc = W.make_calc(rng, spec, t, v)
        cls = classes[isp % len(classes)]
        strain = strain_field(rng, ntv, cls)
        mon.params_seen = []
        base = run_list(ctx, calc, strain, ALL21, case_id, f"{cls}/all-21")
        ctx.evaluation(f"all-21|{cls}", (isp, "all"), sample={"strain_class": cls, "strain_row0": strain[0], "request": "all 21 keys",
                                                                "grid": [len(t), ntv]})
        if base is None:
            continue
        canon_i, canon_a, tl = base
        window = in_dedup_window(mon.params_seen)
        tol = WINDOW if window else STRICT
        ctx.count("runs_in_dedup_window" if window else "runs_outside_dedup_window")
        scale = max(numpy.abs(x).max() for x in canon_i.values()) + 1e-300
        for (a, b), arr in list(canon_i.items()) + list(canon_a.items()):
            if arr.shape != (len(t), ntv):
                ctx.violation("completeness:wrong-shape", f"c{a}{b} has shape {arr.shape}, grid is {(len(t), ntv)}", case_id)
            if numpy.iscomplexobj(arr) or not numpy.all(numpy.isfinite(arr)):
                ctx.violation(f"completeness:non-finite-or-complex:{T.classify(a, b)}", f"c{a}{b}: dtype {arr.dtype}, finite={numpy.all(numpy.isfinite(arr))}", case_id)

        # ---- request independence --------------------------------------------------------------
        requests = []
        if isp % 3 == 0 or not ctx.quick:
            requests += [[p] for p in ALL21]
        npairs = ctx.pick(40, 210)
        allpairs = list(itertools.combinations(ALL21, 2))
        for idx in rng.permutation(len(allpairs))[:npairs]:
            p, q = allpairs[int(idx)]
            requests.append([p, q] if rng.random() < 0.5 else [q, p])
        for _ in range(ctx.pick(25, 200)):
            k = int(rng.integers(2, 22))
            sub = [ALL21[int(i)] for i in rng.permutation(21)[:k]]
            requests.append(sub)
        requests.append(list(reversed(ALL21)))
        worst = 0.0
        containers = ["list", "tuple", "generator", "dict-keys", "iterator"]
        for ireq, req in enumerate(requests):
            # the request is an Iterable of keys: mostly a list, every seventh time another kind of iterable
            cont = containers[(ireq // 7) % 5] if ireq % 7 == 3 else "list"
            r = run_list(ctx, calc, strain, req, case_id, f"{cls}/{len(req)} keys", container=cont)
            if cont != "list":
                ctx.count("requests_as_" + cont)
            ctx.evaluation(f"request-{'single' if len(req) == 1 else 'pair' if len(req) == 2 else 'subset'}|{cls}",
                           (isp, tuple(req)), nontrivial=len(req) >= 2 or T.classify(*req[0]) == "shear",
                           sample={"strain_class": cls, "request": ["c%d%d" % p for p in req]})
            if r is None:
                continue
            for p in req:
                for canon, got, nm in ((canon_i, r[0], "isothermal"), (canon_a, r[1], "adiabatic")):
                    err = numpy.abs(got[p] - canon[p]).max() / scale
                    worst = max(worst, err)
                    ctx.maxi("request_dependence/tol" + ("[window]" if window else ""), err / tol)
                    if not (err <= tol):
                        ctx.violation(f"request-dependence:{nm}:{T.classify(*p)}:{'window' if window else 'strict'}",
                                      f"{cls}: c{p[0]}{p[1]} ({nm}) differs by {err:.3g} x scale when requested as part of "
                                      f"{['c%d%d' % q for q in req]} instead of all 21", case_id, {"request": req, "strain_class": cls})
                        break
        if window:
            ctx.maxi("max_dependence_in_dedup_window(abs,rel to scale)", worst)

        # ---- the axial strains are only ever used as fractions: any positive common scale gives the same tensor ------------------
        for fac in (1e-8, 1e-3, 1e4):
            r = run_list(ctx, calc, strain * fac, ALL21, case_id, f"{cls}/strain-scale{fac:g}")
            ctx.evaluation(f"strain-scale|{cls}", (isp, fac), sample={"strain_class": cls, "strain_scale": fac})
            if r is None:
                continue
            for p_ in ALL21:
                err = max(numpy.abs(r[0][p_] - canon_i[p_]).max(), numpy.abs(r[1][p_] - canon_a[p_]).max()) / scale
                ctx.maxi("strain_scale_dependence/tol", err / tol)
                if not (err <= tol):
                    ctx.violation(f"strain-scale-dependence:{T.classify(*p_)}", f"{cls}: c{p_[0]}{p_[1]} changes by {err:.3g} x scale when all axial strains are "
                                  f"multiplied by {fac:g}", case_id, {"strain_class": cls, "factor": fac})
                    break
        # ---- shear: adiabatic == isothermal, non-trivially ----------------------------------------
        nontriv = any(numpy.any(canon_a[p] != canon_i[p]) for p in ALL21 if T.classify(*p) != "shear")
        for p in ALL21:
            if T.classify(*p) == "shear" and not numpy.array_equal(canon_a[p], canon_i[p]):
                ctx.violation("shear:adiabatic!=isothermal", f"c{p[0]}{p[1]}: adiabatic differs from isothermal by "
                              f"{numpy.abs(canon_a[p] - canon_i[p]).max():.3g}", case_id)
                break
        ctx.count("shear_identity_checks_nontrivial" if nontriv else "shear_identity_checks_trivial")

        # ---- isotropic limit -----------------------------------------------------------------------
        if cls == "equal":
            c11 = canon_i[(1, 1)]
            s = scale          # tensor scale (max over all 21 components): c11 itself can vanish (e.g. one atom, Gamma only)
            want = {}
            for p in ALL21:
                k = T.classify(*p)
                if p in ((1, 1), (2, 2), (3, 3)):
                    want[p] = c11
                elif p in ((1, 2), (1, 3), (2, 3)):
                    want[p] = canon_i[(1, 2)]
                elif p in ((4, 4), (5, 5), (6, 6)):
                    want[p] = (c11 - canon_i[(1, 2)]) / 2
                else:
                    want[p] = numpy.zeros_like(c11)
            for p in ALL21:
                err = numpy.abs(canon_i[p] - want[p]).max() / s
                ctx.maxi("isotropy_err/tol", err / 1e-12)
                if not (err <= 1e-12):
                    ctx.violation(f"isotropy:{'c%d%d' % p if p[0] == p[1] else T.classify(*p)}",
                                  f"equal strains: c{p[0]}{p[1]} = {canon_i[p].ravel()[:2]}, isotropic value {want[p].ravel()[:2]}", case_id)
            ctx.count("isotropy_checks")

        # ---- axis relabelling --------------------------------------------------------------------------
        perms = list(itertools.permutations(range(3)))
        for perm in (perms if (isp % 2 == 0 or not ctx.quick) else perms[1:3]):
            if perm == (0, 1, 2):
                continue
            r = run_list(ctx, calc, strain[:, list(perm)], ALL21, case_id, f"{cls}/axes{perm}")
            ctx.evaluation(f"axis-permutation|{cls}", (isp, perm), sample={"strain_class": cls, "axis_permutation": perm})
            if r is None:
                continue
            bad = None
            for (i, j, k, l) in T.ALL_TUPLES:
                new = T.canon(i, j, k, l)
                old = T.canon(perm[i - 1] + 1, perm[j - 1] + 1, perm[k - 1] + 1, perm[l - 1] + 1)
                err = max(numpy.abs(r[0][new] - canon_i[old]).max(), numpy.abs(r[1][new] - canon_a[old]).max()) / scale
                ctx.maxi("axis_permutation_err/tol", err / tol)
                if not (err <= tol):
                    bad = (new, old, err)
                    break
            if bad:
                ctx.violation(f"axis-permutation:{T.classify(*bad[0])}", f"{cls}: after relabelling axes {perm}, c{bad[0]} != original c{bad[1]} "
                              f"(err {bad[2]:.3g} x scale)", case_id, {"perm": perm, "strain_class": cls})
            ctx.count("axis_permutation_checks")
    ctx.require("axis_permutation_checks", 1)
