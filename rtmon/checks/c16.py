"""C16 - effective configuration = user over packaged defaults; invalid rejected."""
import copy
import json
import os
import tempfile

import icontract
import yaml

from ..trace import CallCounter
from ..runner import classify_exception, exc_site, exc_text, repo_dir

KEYS = list("abcde")


class PostBroken(Exception):
    pass


# ---------------------------------------------------------------- oracle ----
def leaves(d, prefix=()):
    """Leaf paths of a nested dict (a non-dict value, or an empty dict, is a leaf)."""
    out = {}
    for k, v in d.items():
        if isinstance(v, dict) and v:
            out.update(leaves(v, prefix + (k,)))
        else:
            out[prefix + (k,)] = v
    return out


def build(leafmap):
    root = {}
    for path, v in leafmap.items():
        cur = root
        for k in path[:-1]:
            cur = cur.setdefault(k, {})
        cur[path[-1]] = v
    return root


def oracle_merge(user, default):
    """User leaves win; a default leaf is taken when the user neither specifies it
    nor specifies a leaf at one of its prefixes or below it."""
    ul, dl = leaves(user), leaves(default)
    out = dict(ul)
    for path, v in dl.items():
        shadowed = any(path[:n] in ul for n in range(1, len(path) + 1)) or \
            any(up[:len(path)] == path for up in ul)
        if not shadowed:
            out[path] = v
    return build(out)


def has_empty_conflict(user, default):
    """Empty-dict leaf facing a non-dict or vice versa: the statement does not pin the outcome."""
    ul, dl = leaves(user), leaves(default)
    for p, v in list(ul.items()) + list(dl.items()):
        if isinstance(v, dict) and not v:
            other = dl if p in ul and ul[p] is v else ul
            if any(q[:len(p)] == p or p[:len(q)] == q for q in other):
                return True
    return False


# ------------------------------------------------------------- generator ----
def gen_leaf(rng):
    t = rng.integers(0, 8)
    return [int(rng.integers(-5, 100)), float(rng.normal()), "s%d" % rng.integers(0, 9), bool(rng.integers(0, 2)), None,
            [int(x) for x in rng.integers(0, 9, size=rng.integers(0, 4))], [{"k": 1}, "x"], 1.0e-8][t]


def gen_dict(rng, depth, pdict=0.45, maxkeys=4):
    d = {}
    for k in rng.choice(KEYS, size=rng.integers(0 if depth < 3 else 1, maxkeys + 1), replace=False):
        if depth > 0 and rng.random() < pdict:
            sub = gen_dict(rng, depth - 1, pdict, maxkeys)
            d[str(k)] = sub if sub else gen_leaf(rng)
        else:
            d[str(k)] = gen_leaf(rng)
    return d


def shape_class(user, default):
    ul, dl = leaves(user), leaves(default)
    udict_over_scalar = any(any(up[:len(p)] == p and len(up) > len(p) for up in ul) for p in dl)
    uscalar_over_dict = any(any(dp[:len(p)] == p and len(dp) > len(p) for dp in dl) for p in ul)
    if udict_over_scalar and uscalar_over_dict:
        return "conflict-both"
    if udict_over_scalar:
        return "user-dict-over-default-scalar"
    if uscalar_over_dict:
        return "user-scalar-over-default-dict"
    if set(ul) & set(dl):
        return "overlap"
    return "disjoint"


# ----------------------------------------------------------------- check ----
def run(ctx):
    cc = CallCounter().start()
    try:
        _merge(ctx)
        _files(ctx)
        _validate(ctx)
    finally:
        cc.stop()
    cc.report(ctx, ["config.py:update_config", "config.py:apply_default_config", "config.py:read_config",
                    "validate.py:validate_config"])


def _merge(ctx):
    import cij.io.config.config as cfgmod
    evals = {"n": 0}

    def snap_user(input_dict):
        return copy.deepcopy(input_dict)

    def snap_default(default_dict):
        return copy.deepcopy(default_dict)

    def post_inputs_untouched(input_dict, default_dict, OLD):
        evals["n"] += 1
        return input_dict == OLD.u and default_dict == OLD.d

    def post_is_leaf_merge(input_dict, default_dict, result):
        if has_empty_conflict(input_dict, default_dict):
            return True
        return result == oracle_merge(input_dict, default_dict)

    orig = cfgmod.update_config
    contracted = icontract.snapshot(snap_user, name="u")(icontract.snapshot(snap_default, name="d")(
        icontract.ensure(post_inputs_untouched, error=lambda: PostBroken("inputs modified"))(
            icontract.ensure(post_is_leaf_merge, error=lambda: PostBroken("result is not user-leaves-over-default-leaves"))(orig))))
    cfgmod.update_config = contracted      # recursion and apply_default_config now go through the contract
    try:
        with open(os.path.join(repo_dir(), "cij/data/default/settings.yaml")) as fp:
            packaged = yaml.safe_load(fp)
        n = ctx.pick(4000, 1500000)
        for i in range(n):
            if not ctx.mine(i):
                continue
            rng = ctx.rng("merge", i)
            mode = i % 10
            if mode < 6:
                user, default = gen_dict(rng, 4), gen_dict(rng, 4)
            elif mode < 8:   # defaults = packaged; user = sparse overrides of it, some with shape conflicts
                default = copy.deepcopy(packaged)
                user = _perturb_packaged(rng, packaged)
            else:
                user = gen_dict(rng, 3)
                default = copy.deepcopy(user)
                for p, v in list(leaves(default).items())[::2]:
                    _set(default, p, gen_dict(rng, 1) or 7)
            if has_empty_conflict(user, default):
                ctx.count("skipped_ambiguous_empty_dict")
                continue
            cls = shape_class(user, default)
            case_id = f"merge{i}"
            u0, d0 = copy.deepcopy(user), copy.deepcopy(default)
            via_apply = mode in (6, 7)
            try:
                if via_apply:
                    res = cfgmod.apply_default_config(user)
                else:
                    res = contracted(user, default)
            except PostBroken as exc:
                ctx.violation(f"merge:{exc}:{cls}", f"{exc} for user={u0!r} default={'<packaged>' if via_apply else d0!r}",
                              case_id, {"user": u0, "default": None if via_apply else d0})
                ctx.evaluation("merge-" + cls, (i,))
                continue
            except Exception as exc:
                if classify_exception(exc) == "code":
                    ctx.violation(f"merge-raises:{type(exc).__name__}:{cls}",
                                  f"update_config raised on user={u0!r} default={'<packaged>' if via_apply else d0!r}\n{exc_text(exc)}",
                                  case_id, {"user": u0, "default": None if via_apply else d0})
                else:
                    ctx.harness_error("C16.merge", exc)
                ctx.evaluation("merge-" + cls, (i,))
                continue
            ref = oracle_merge(u0, d0)
            nontriv = bool(u0) and bool(d0)
            ctx.evaluation("merge-" + cls, (json.dumps(u0, sort_keys=True, default=str), json.dumps(d0, sort_keys=True, default=str)) if not via_apply else ("apply", json.dumps(u0, sort_keys=True, default=str)),
                           nontrivial=nontriv, sample={"user": u0, "default": "<packaged defaults>" if via_apply else d0, "effective": res})
            if res != ref:
                ctx.violation(f"merge:wrong-result:{cls}", f"user={u0!r} default={d0!r}\n got {res!r}\n want {ref!r}", case_id,
                              {"user": u0, "default": d0})
            # every user leaf kept, no foreign keys
            rl = leaves(res)
            for p, v in leaves(u0).items():
                if p not in rl or rl[p] != v or type(rl[p]) is not type(v):
                    ctx.violation(f"merge:user-leaf-lost:{cls}", f"user leaf {p}={v!r} became {rl.get(p)!r}", case_id, {"user": u0, "default": d0})
                    break
            if not set(rl) <= set(leaves(u0)) | set(leaves(d0)):
                ctx.violation(f"merge:foreign-key:{cls}", f"result has keys from nowhere: {set(rl) - set(leaves(u0)) - set(leaves(d0))}", case_id)
            if user != u0 or default != d0:
                ctx.violation(f"merge:inputs-mutated:{cls}", "an input was modified", case_id, {"user": u0, "default": d0})
            # idempotence
            try:
                again = contracted(res, d0) if not via_apply else cfgmod.apply_default_config(res)
                if again != res:
                    ctx.violation(f"merge:not-idempotent:{cls}", f"second application changed the result: {res!r} -> {again!r}", case_id,
                                  {"user": u0, "default": d0})
            except PostBroken:
                pass     # reported above through the same contract
            except Exception as exc:
                ctx.violation(f"merge-raises-on-reapply:{type(exc).__name__}:{cls}", exc_text(exc), case_id, {"user": u0, "default": d0})
        ctx.count("contract_evaluations", evals["n"])
        ctx.require("contract_evaluations", 100)
    finally:
        cfgmod.update_config = orig


def _set(d, path, value):
    cur = d
    for k in path[:-1]:
        cur = cur[k]
    cur[path[-1]] = value


def _perturb_packaged(rng, packaged):
    """Sparse user configuration over the packaged defaults, including dict-over-scalar
    and scalar-over-dict placements (e.g. a mapping where the defaults hold a list)."""
    pl = list(leaves(packaged).items())
    user = {}
    for _ in range(int(rng.integers(1, 5))):
        p, v = pl[int(rng.integers(0, len(pl)))]
        kind = rng.integers(0, 5)
        if kind == 0:
            val = gen_leaf(rng)
        elif kind == 1:
            val = {"x": gen_leaf(rng)}                     # dict over default scalar/list
        elif kind == 2 and len(p) > 1:
            p, val = p[:-1], gen_leaf(rng)                 # scalar over default dict
        else:
            val = v
        cur = user
        ok = True
        for k in p[:-1]:
            nxt = cur.setdefault(k, {})
            if not isinstance(nxt, dict):
                ok = False
                break
            cur = nxt
        if ok:
            cur[p[-1]] = val
    if rng.random() < 0.3:
        user["extra_section"] = gen_dict(rng, 2)
    return user


# ---- read_config: YAML and JSON spellings --------------------------------------
def _files(ctx):
    from cij.io.config import read_config
    tmp = tempfile.mkdtemp(prefix="c16-")
    try:
        n = ctx.pick(60, 10000)
        for i in range(n):
            if not ctx.mine(i):
                continue
            rng = ctx.rng("file", i)
            cfg = gen_valid_config(rng)
            pj, py, pyml = (os.path.join(tmp, f"c{i}.{e}") for e in ("json", "yaml", "yml"))
            json.dump(cfg, open(pj, "w"))
            flow = bool(rng.integers(0, 2))
            yaml.safe_dump(cfg, open(py, "w"), default_flow_style=flow)
            yaml.safe_dump(cfg, open(pyml, "w"), default_flow_style=not flow, sort_keys=False)
            try:
                got = [read_config(p) for p in (pj, py, pyml)] + [read_config(pj, validate=False)]
            except Exception as exc:
                if classify_exception(exc) == "code" or "jsonschema" in type(exc).__module__:
                    ctx.violation(f"read_config-raises:{type(exc).__name__}", f"valid configuration rejected/failed: {cfg!r}\n{exc_text(exc)}",
                                  f"file{i}", {"config": cfg})
                else:
                    ctx.harness_error("C16.files", exc)
                continue
            finally:
                for p in (pj, py, pyml):
                    os.unlink(p)
            ctx.evaluation("read-yaml-json", (json.dumps(cfg, sort_keys=True),), sample={"config": cfg}, n=4)
            if any(g != cfg for g in got):
                ctx.violation("read_config:spellings-differ", f"YAML/JSON spellings of {cfg!r} load as {got!r}", f"file{i}", {"config": cfg})
        # invalid configurations must be rejected on the file path too, whatever the spelling
        from jsonschema.exceptions import ValidationError
        bad_cfgs = [({"qha": {}}, "missing-elast"), ({"elast": {}}, "missing-qha"),
                    ({"qha": {"settings": {"NT": 0}}, "elast": {}}, "NT=0"),
                    ({"qha": {}, "elast": {"settings": {"symmetry": {"system": "cubicc"}}}}, "unknown-system"),
                    ({"qha": {}, "elast": {"settings": {"mode_gamma": {"interpolator": "linear"}}}}, "unknown-interpolator"),
                    ({"qha": {}, "elast": {"settings": {"foo": 1}}}, "unknown-key")]
        for cfg, what in bad_cfgs:
            for ext in ("json", "yaml", "yml"):
                p = os.path.join(tmp, f"bad.{ext}")
                with open(p, "w") as fp:
                    json.dump(cfg, fp) if ext == "json" else yaml.safe_dump(cfg, fp)
                ctx.evaluation("read-invalid-file", (what, ext), sample={"config": cfg, "suffix": ext, "expect": "ValidationError"})
                try:
                    read_config(p)
                    ctx.violation(f"read_config:accepted-invalid:{ext}", f"{what} in a .{ext} file was accepted by read_config", f"badfile-{what}-{ext}", {"config": cfg})
                except ValidationError:
                    ctx.count("file_refusals")
                except Exception as exc:
                    ctx.violation(f"read_config:invalid-other-error:{type(exc).__name__}", exc_text(exc), f"badfile-{what}-{ext}")
                try:
                    if read_config(p, validate=False) != cfg:
                        ctx.violation("read_config:validate-false-changes-content", f"{what}.{ext}", f"badfile-{what}-{ext}")
                except Exception as exc:
                    ctx.violation(f"read_config:validate-false-raises:{type(exc).__name__}", exc_text(exc), f"badfile-{what}-{ext}")
        ctx.require("file_refusals", 6)
        # unsupported suffix must be refused
        p = os.path.join(tmp, "c.toml")
        open(p, "w").write("{}")
        try:
            read_config(p)
            ctx.violation("read_config:unknown-suffix-accepted", "a .toml file was loaded")
        except RuntimeError:
            ctx.count("suffix_refusals")
        except Exception as exc:
            ctx.violation("read_config:unknown-suffix-other-error", exc_text(exc))
    finally:
        import shutil
        shutil.rmtree(tmp, ignore_errors=True)


INTERPOLATORS = ["lsq_poly", "lagrange", "spline", "krogh", "pchip", "hermite", "akima"]
SYSTEMS = ["triclinic", "monoclinic", "hexagonal", "trigonal6", "trigonal7", "orthorhombic", "tetragonal6", "tetragonal7", "cubic"]


def gen_valid_config(rng):
    cfg = {"qha": {"input": "input01", "settings": {}}, "elast": {"input": "elast.dat", "settings": {}}}
    qs = cfg["qha"]["settings"]
    for k, g in (("NT", lambda: int(rng.integers(1, 40))), ("DT", lambda: float(rng.choice([0.5, 2, 50, 100.0, 1.0e-8]))),
                 ("T_MIN", lambda: float(rng.choice([0, 0.5, 300]))), ("NTV", lambda: int(rng.integers(1, 200))),
                 ("P_MIN", lambda: float(rng.normal())), ("DELTA_P", lambda: float(rng.choice([0.1, 0.5, 1, 2]))),
                 ("DELTA_P_SAMPLE", lambda: float(rng.choice([1, 5]))), ("volume_ratio", lambda: float(rng.choice([1.0, 1.05, 1.2, 1.4]))),
                 ("order", lambda: int(rng.choice([2, 3, 4, 5]))), ("static_only", lambda: False)):
        if rng.random() < 0.7:
            qs[k] = g()
    es = cfg["elast"]["settings"]
    if rng.random() < 0.8:
        es["mode_gamma"] = {}
        if rng.random() < 0.8:
            es["mode_gamma"]["interpolator"] = str(rng.choice(INTERPOLATORS))
        if rng.random() < 0.8:
            es["mode_gamma"]["order"] = int(rng.integers(1, 7))
    if rng.random() < 0.8:
        es["symmetry"] = {}
        for k, g in (("system", lambda: str(rng.choice(SYSTEMS))), ("ignore_residuals", lambda: bool(rng.integers(0, 2))),
                     ("ignore_rank", lambda: bool(rng.integers(0, 2))), ("drop_atol", lambda: float(rng.choice([1e-8, 1e-3, 0]))),
                     ("residual_atol", lambda: float(rng.choice([0.1, 1.0, 1e-4])))):
            if rng.random() < 0.6:
                es["symmetry"][k] = g()
    if rng.random() < 0.6:
        cfg["output"] = {"pressure_base": ["cij", "vs", {"keyword": "vp", "fname": "x.txt"}], "volume_base": ["p"]}
    return cfg


# ---- validation: single-field perturbations --------------------------------------
# (path, accepted values, rejected values) transcribed from the documented schema titles/constraints
FIELDS = [
    (("qha", "settings", "NT"), [1, 2, 16, 1000], [0, -3, 1.5, "16", [16], None]),
    (("qha", "settings", "NTV"), [1, 81, 500], [0, -1, 2.5, "81", None]),
    (("qha", "settings", "DT"), [0.5, 100, 1.0e-8, 500.0], ["100", [1], None, {"a": 1}]),
    (("qha", "settings", "T_MIN"), [0, 0.0, 0.5, 300], [-1, -0.001, "0", None]),
    (("qha", "settings", "P_MIN"), [0, -5.5, 100], ["0", None, [0]]),
    (("qha", "settings", "DELTA_P"), [0.1, 1, 2.5], ["1", None, []]),
    (("qha", "settings", "DELTA_P_SAMPLE"), [1, 5.0], ["1", None]),
    (("qha", "settings", "volume_ratio"), [1.0, 1, 1.2, 1.45], [0.99, 0, -1.2, "1.2", None]),
    (("qha", "settings", "order"), [2, 3, 4, 5], [1, 0, -3, "3", None]),
    (("qha", "input"), ["input01", "a/b.txt"], [1, None, ["input01"], {"f": "x"}]),
    (("elast", "input"), ["elast.dat", "input02"], [2, None, ["x"]]),
    (("elast", "settings", "mode_gamma", "interpolator"), INTERPOLATORS, ["cubic", "Spline", "LSQ_POLY", "", 3, None, "linear"]),
    (("elast", "settings", "mode_gamma", "order"), [1, 2, 3, 6], [0, -1, 2.5, "3", None]),
    (("elast", "settings", "symmetry", "system"), SYSTEMS, ["orthrohombic", "Cubic", "trigonal", "tetragonal", "", 2, None, "isotropic"]),
    (("elast", "settings", "symmetry", "ignore_residuals"), [True, False], ["yes", 1, 0, None, "False"]),
    (("elast", "settings", "symmetry", "ignore_rank"), [True, False], ["no", 1, None]),
    (("elast", "settings", "symmetry", "drop_atol"), [1e-8, 0, 1, 1.0e-3], ["1e-8", None, [1e-8]]),
    (("elast", "settings", "symmetry", "residual_atol"), [0.1, 0, 5], ["0.1", None]),
    (("elast", "settings", "symmetry", "unknown_key"), [], [1, "x", True]),
    (("elast", "settings", "symmetry", "sytem"), [], ["cubic"]),
    (("elast", "settings", "unknown_key"), [], [1, {"a": 1}]),
    (("elast", "settings", "mode_gama"), [], [{"interpolator": "spline"}]),
    (("elast", "settings", "mode_gamma"), [{}, {"interpolator": "spline"}], ["spline", 3, None, ["spline"]]),
    (("elast", "settings", "symmetry"), [{}, {"system": "cubic"}], ["cubic", 1, None]),
    (("elast", "settings"), [{}], ["x", 1, None, []]),
    (("qha", "settings"), [{}], ["x", 1, None, []]),
    (("qha",), [{}, {"input": "i"}], ["x", 1, None, []]),
    (("elast",), [{}, {"input": "i"}], ["x", 1, None, []]),
    (("output",), [{}, {"pressure_base": ["cij"]}], ["cij", 1, None, ["cij"]]),
]


def _put(cfg, path, value):
    cur = cfg
    for k in path[:-1]:
        if not isinstance(cur.get(k), dict):
            cur[k] = {}
        cur = cur[k]
    cur[path[-1]] = value


def _validate(ctx):
    from cij.io.config import validate_config, read_config
    from jsonschema.exceptions import ValidationError
    import glob

    def judge(cfg, expect_ok, cls, case_id, what):
        try:
            validate_config(cfg)
            ok, err = True, None
        except ValidationError as exc:
            ok, err = False, exc
        except Exception as exc:
            ctx.violation(f"validate-other-error:{type(exc).__name__}:{cls}", f"{what}: {exc_text(exc)}", case_id, {"config": cfg})
            return
        ctx.count("acceptances_observed" if ok else "refusals_observed")
        if ok != expect_ok:
            ctx.violation(f"validate:{'rejected-valid' if expect_ok else 'accepted-invalid'}:{cls}",
                          f"{what}: validate_config {'accepted' if ok else 'rejected'} it" + (f" ({err.message})" if err else ""),
                          case_id, {"config": cfg})

    # shipped files
    repo = repo_dir()
    shipped = sorted(glob.glob(os.path.join(repo, "examples/*/settings.yaml"))) + [os.path.join(repo, "cij/data/default/settings.yaml")]
    for p in shipped:
        try:
            cfg = read_config(p)
            ctx.evaluation("shipped-file", (os.path.relpath(p, repo),), sample={"file": os.path.relpath(p, repo)})
            judge(cfg, True, "shipped:" + os.path.relpath(p, repo), "shipped", p)
        except ValidationError as exc:
            ctx.violation("validate:rejected-valid:shipped:" + os.path.relpath(p, repo), f"{p} does not validate: {exc.message}")
    if len(shipped) < 4:
        ctx.inconc("shipped settings files not found")

    bases = ctx.pick(6, 600)
    k = 0
    for ib in range(bases):
        rng = ctx.rng("vbase", ib)
        base = gen_valid_config(rng) if ib else yaml.safe_load(open(os.path.join(repo, "cij/data/default/settings.yaml")))
        if ctx.mine(k):
            judge(base, True, "generated-valid", f"vbase{ib}", f"generated valid config {base!r}")
            ctx.evaluation("valid-base", (json.dumps(base, sort_keys=True, default=str),))
        k += 1
        for path, good, bad in FIELDS:
            for val, expect in [(g, True) for g in good] + [(b, False) for b in bad]:
                k += 1
                if not ctx.mine(k):
                    continue
                cfg = copy.deepcopy(base)
                _put(cfg, path, val)
                cls = ".".join(path)
                ctx.evaluation(("accept:" if expect else "reject:") + cls, (ib, path, repr(val)),
                               sample={"field": cls, "value": val, "expect": "accept" if expect else "reject"})
                judge(cfg, expect, cls, f"v{ib}:{cls}:{val!r}", f"{cls} = {val!r}")
        # missing sections
        for sec in ("qha", "elast"):
            k += 1
            if not ctx.mine(k):
                continue
            cfg = copy.deepcopy(base)
            del cfg[sec]
            ctx.evaluation("reject:missing-" + sec, (ib, sec))
            judge(cfg, False, "missing-" + sec, f"v{ib}:missing-{sec}", f"configuration without '{sec}'")
    ctx.require("refusals_observed", 20)
    ctx.require("acceptances_observed", 20)
