"""C11 - every interpolation method returns one consistent (omega, gamma, V dgamma/dV) triple."""
from types import SimpleNamespace

import numpy

from ..oracles import units as U
from ..trace import CallCounter
from ..runner import classify_exception, exc_site, exc_text

METHODS = ["spline", "lagrange", "krogh", "pchip", "akima", "hermite", "lsq_poly"]
BOOLE = numpy.array([7, 32, 12, 32, 7]) / 90.0


def admissible_orders(method, nv):
    if method == "spline":
        return [k for k in range(2, 6) if k < nv]
    if method == "lsq_poly":
        return [k for k in range(1, 6) if k < nv]
    return [k for k in range(2, 9) if k < nv]


def make_input(volumes, table):
    """Duck-typed QHA input: table[v][q][m] frequencies."""
    nv, nq, np_ = table.shape
    vols = [SimpleNamespace(volume=float(volumes[i]), energy=0.0, pressure=0.0,
                            q_points=[SimpleNamespace(coord=(0.0, 0.0, float(j)), modes=[float(x) for x in table[i, j]]) for j in range(nq)])
            for i in range(nv)]
    return SimpleNamespace(nv=nv, nq=nq, np=np_, nm=1, na=np_ // 3, volumes=vols, weights=[((0, 0, float(j)), 1.0) for j in range(nq)])


def gen_table(rng, volumes, nq, np_, data):
    """Frequencies with a unique (w0, g0) per (q, m) so that every returned column names its mode."""
    v0 = volumes.max()
    x = numpy.log(volumes / v0)[:, None, None]
    w0 = rng.uniform(40, 1500, size=(nq, np_))
    g0 = rng.uniform(-1, 4, size=(nq, np_))
    g0 += numpy.arange(nq * np_).reshape(nq, np_) * 1e-3       # pairwise distinct
    if data == "power-law":
        a = b = c = numpy.zeros((nq, np_))
    elif data.startswith("poly"):
        deg = int(data[4:])
        a = rng.uniform(-2, 2, size=(nq, np_)) if deg >= 2 else numpy.zeros((nq, np_))
        b = rng.uniform(-3, 3, size=(nq, np_)) if deg >= 3 else numpy.zeros((nq, np_))
        c = rng.uniform(-4, 4, size=(nq, np_)) if deg >= 4 else numpy.zeros((nq, np_))
    else:  # generic smooth
        a = rng.uniform(-2, 2, size=(nq, np_))
        b = rng.uniform(-3, 3, size=(nq, np_))
        c = rng.uniform(-4, 4, size=(nq, np_))
    lnw = numpy.log(w0) - g0 * x - a * x ** 2 / 2 - b * x ** 3 / 6 - c * x ** 4 / 24
    if data == "generic":
        lnw = lnw + 0.02 * numpy.sin(7 * x + rng.uniform(0, 6, size=(nq, np_)))
    table = numpy.exp(lnw)
    acoustic = [0.0, -rng.uniform(0.01, 0.3), rng.uniform(-50, 50)][int(rng.integers(0, 3))]
    table[:, 0, :3] = acoustic
    return table, dict(v0=v0, w0=w0, g0=g0, a=a, b=b, c=c)


def closed_form(par, v, data):
    x = numpy.log(v / par["v0"])[:, None, None]
    lnw = numpy.log(par["w0"]) - par["g0"] * x - par["a"] * x ** 2 / 2 - par["b"] * x ** 3 / 6 - par["c"] * x ** 4 / 24
    gam = par["g0"] + par["a"] * x + par["b"] * x ** 2 / 2 + par["c"] * x ** 3 / 6
    dg = par["a"] + par["b"] * x + par["c"] * x ** 2 / 2 + 0 * x
    return numpy.exp(lnw), gam, dg


def run(ctx):
    cc = CallCounter().start()
    try:
        _interp(ctx)
        _plot(ctx)
    finally:
        cc.stop()
    cc.report(ctx, ["mode_gamma.py:interpolate_modes", "mode_gamma.py:interpolate_mode_spline", "mode_gamma.py:interpolate_mode_lagrange",
                    "mode_gamma.py:interpolate_mode_krogh", "mode_gamma.py:interpolate_mode_ppoly", "mode_gamma.py:interpolate_mode_lsq_poly",
                    "modes.py:ModePlotter.plot_modes"])
    ctx.require("triple_consistency_windows", 100)
    ctx.require("exactness_checks", 20)


def breakpoints(method, order, volumes, table):
    """ln-volume abscissae at which the interpolant may change its polynomial piece."""
    lnv = numpy.sort(numpy.log(volumes))
    bp = set(lnv.tolist())
    if method == "spline":
        import scipy.interpolate
        nv, nq, np_ = table.shape
        for j in range(nq):
            for k in range(np_):
                if j == 0 and k < 3:
                    continue
                try:
                    s = scipy.interpolate.UnivariateSpline(numpy.flip(numpy.log(volumes)), numpy.flip(numpy.log(table[:, j, k])), k=order)
                    bp.update(float(z) for z in s.get_knots())
                except Exception:
                    pass
    return numpy.array(sorted(bp))


def windows(bp, lo, hi, rng):
    """5-point windows strictly inside the pieces (and in both extrapolation regions)."""
    edges = [lo] + [b for b in bp if lo < b < hi] + [hi]
    wins = []
    for a, b in zip(edges[:-1], edges[1:]):
        if b - a < 1e-6:
            continue
        m = 0.02 * (b - a)
        wins.append(numpy.linspace(a + m, b - m, 5))
    return wins


def _call(ctx, qin, v, method, order, case_id, cls):
    from cij.core.mode_gamma import interpolate_modes
    try:
        with numpy.errstate(all="ignore"):
            f, g, d = interpolate_modes(qin, v, method=method, order=order)
        return numpy.asarray(f), numpy.asarray(g), numpy.asarray(d)
    except Exception as exc:
        if classify_exception(exc) == "code":
            ctx.violation(f"interpolator-raises:{method}:{type(exc).__name__}", f"{cls}: {exc_text(exc)}", case_id,
                          {"method": method, "order": order})
        else:
            ctx.harness_error("C11.call", exc)
        return None


def _interp(ctx):
    combos = []
    for method in METHODS:
        for nv in (4, 5, 6, 7, 8, 9, 10, 12):
            for order in admissible_orders(method, nv):
                combos.append((method, nv, order))
    reps = ctx.pick(1, 1000)
    k = 0
    for rep in range(reps):
        for icombo, (method, nv, order) in enumerate(combos):
            for data in ("power-law", "generic", "poly"):
                k += 1
                case_id = f"{method}-o{order}-nv{nv}-{data}-{rep}"
                # all cases of one (method, #volumes, order) run in the same process, one after the other, on different
                # volume sets: state kept between calls (caches keyed too coarsely) then shows up as a wrong interpolant
                if not ctx.mine(icombo, case_id):
                    continue
                rng = ctx.rng("interp", method, nv, order, data, rep)
                dcls = data
                if data == "poly":
                    if method != "lsq_poly":
                        continue
                    dcls = f"poly{min(order, 4)}"
                ratio = float(rng.choice([1.05, 1.2, 1.4]))
                vmax = float(rng.uniform(80, 900)) if (icombo + rep) % 2 else float(rng.uniform(900, 3000))
                # sampled range in ln V: from the 30 % of a wide compression study down to the 10-14 % of a typical one
                span = [0.3, 0.2, 0.14, 0.1][(icombo + rep) % 4]
                volumes = vmax * numpy.exp(numpy.sort(rng.uniform(-0.35, 0, size=nv - 1)))[::-1]
                volumes = numpy.concatenate([[vmax], volumes[volumes < vmax * 0.999]])[:nv]
                if len(volumes) < nv:
                    volumes = vmax * numpy.exp(numpy.linspace(0, -0.3, nv))
                # keep nodes apart so that conditioning is about the method, not about a degenerate grid
                volumes = vmax * numpy.exp(numpy.linspace(0, -span, nv) + rng.uniform(-0.03, 0.03, size=nv) * span * (numpy.arange(nv) > 0))
                nq, np_ = int(rng.integers(1, 4)), 3 * int(rng.integers(1, 4))
                table, par = gen_table(rng, volumes, nq, np_, dcls)
                qin = make_input(volumes, table)
                lo, hi = numpy.log(volumes.min() / ratio), numpy.log(volumes.max() * ratio)
                bp = breakpoints(method, order, volumes, table)
                wins = windows(bp, lo, hi, rng)
                xs = numpy.concatenate(wins)
                v = numpy.exp(xs)[::-1].copy()           # descending volumes, as the calculator passes them
                cls = f"{method}|order={order}|{dcls}"
                r = _call(ctx, qin, v, method, order, case_id, cls)
                nontriv = nq * np_ > 3
                ctx.evaluation(cls, (method, nv, order, dcls, rep, ratio), nontrivial=nontriv,
                               sample={"method": method, "order": order, "sampled_volumes": nv, "data": dcls, "expansion_ratio": ratio, "lnV_span": span, "V_max": vmax,
                                       "nq": nq, "modes": np_, "grid_points": len(v)})
                if r is None:
                    continue
                f, g, d = (z[::-1] for z in r)            # back to ascending x
                data_ = {"method": method, "order": order, "nv": nv, "data": dcls, "ratio": ratio}
                if f.shape != (len(v), nq, np_) or g.shape != f.shape or d.shape != f.shape:
                    ctx.violation(f"shape:{method}", f"{cls}: shapes {f.shape} {g.shape} {d.shape}", case_id, data_)
                    continue
                # Gamma acoustic slots stay zero
                if numpy.any(f[:, 0, :3] != 0) or numpy.any(g[:, 0, :3] != 0) or numpy.any(d[:, 0, :3] != 0):
                    ctx.violation(f"gamma-acoustic-not-zero:{method}", f"{cls}: Gamma acoustic slots are not left at zero", case_id, data_)
                mask = numpy.ones((nq, np_), dtype=bool)
                mask[0, :3] = False
                if not mask.any():
                    continue
                ff, gg, dd = f[:, mask], g[:, mask], d[:, mask]
                if not (numpy.all(numpy.isfinite(ff)) and numpy.all(numpy.isfinite(gg)) and numpy.all(numpy.isfinite(dd))):
                    inside = (xs >= numpy.log(volumes.min())) & (xs <= numpy.log(volumes.max()))
                    where = "inside-sampled-range" if not numpy.all(numpy.isfinite(ff[inside])) else "outside-sampled-range"
                    ctx.violation(f"non-finite:{method}:{where}", f"{cls}: NaN/inf returned {where}", case_id, data_)
                    continue
                if numpy.any(ff <= 0):
                    ctx.violation(f"non-positive-frequency:{method}", f"{cls}: interpolated frequency <= 0", case_id, data_)
                # conditioning: same call, inputs perturbed by 1e-13 relative
                t2 = table * (1 + 1e-13 * rng.choice([-1, 1], size=table.shape))
                r2 = _call(ctx, make_input(volumes, t2), v, method, order, case_id, cls)
                if r2 is None:
                    continue
                f2, g2, d2 = (z[::-1][:, mask] for z in r2)
                sp_f = numpy.abs(numpy.log(f2) - numpy.log(ff)).max()
                sp_g = numpy.abs(g2 - gg).max()
                sp_d = numpy.abs(d2 - dd).max()
                # The interpolant of ln w against ln V cannot depend on the unit of volume: multiplying every sampled volume and every
                # grid volume by one factor shifts ln V and leaves w, gamma and V dgamma/dV where they are.  The conditioning of the
                # *problem* is therefore measured on the same data with the volumes divided by their geometric mean (ln V centred at
                # 0); an algorithm that is only unstable because ln V is 6 or 7 then shows up instead of hiding behind its own noise.
                gm = float(numpy.exp(numpy.mean(numpy.log(volumes))))
                rc = _call(ctx, make_input(volumes / gm, table), v / gm, method, order, case_id, cls)
                rc2 = _call(ctx, make_input(volumes / gm, t2), v / gm, method, order, case_id, cls)
                if rc is not None and rc2 is not None:
                    fc, gc, dc = (z[::-1][:, mask] for z in rc)
                    fc2, gc2, dc2 = (z[::-1][:, mask] for z in rc2)
                    with numpy.errstate(all="ignore"):
                        spc = (numpy.abs(numpy.log(fc2) - numpy.log(fc)).max(), numpy.abs(gc2 - gc).max(), numpy.abs(dc2 - dc).max())
                        unit_dep = (numpy.abs(numpy.log(fc) - numpy.log(ff)).max(), numpy.abs(gc - gg).max(), numpy.abs(dc - dd).max())
                    if all(numpy.isfinite(x_) for x_ in spc):
                        sp_f, sp_g, sp_d = min(sp_f, spc[0]), min(sp_g, spc[1]), min(sp_d, spc[2])
                    tolu = (100 * sp_f + 1e-9, 100 * sp_g + 1e-9, max(100 * sp_d + 1e-8, 100 * sp_g + 1e-9))
                    ctx.count("volume_unit_invariance_checks")
                    for e_, tl_, nm_ in zip(unit_dep, tolu, ("frequency", "gamma", "V-dgamma-dV")):
                        ctx.maxi("volume_unit_dependence/tol", e_ / tl_)
                        if not (e_ <= tl_):
                            ctx.violation(f"volume-unit-dependence:{nm_}:{method}",
                                          f"{cls}: {nm_} changes by {e_:.3g} (tol {tl_:.3g}) when all volumes are divided by their geometric mean "
                                          f"({gm:.1f}), i.e. expressed in another unit", case_id, data_)
                            break
                tol_f, tol_g, tol_d = 100 * sp_f + 1e-9, 100 * sp_g + 1e-9, 100 * sp_d + 1e-8
                tol_d = max(tol_d, tol_g)
                # ---- consistency of the triple, window by window (Boole's rule: exact to degree 5) ----
                pos = 0
                worst1 = worst2 = 0.0
                for w in wins:
                    sl = slice(pos, pos + 5)
                    pos += 5
                    h = (w[-1] - w[0])
                    lnw_ = numpy.log(ff[sl])
                    i1 = h * numpy.tensordot(BOOLE, gg[sl], axes=(0, 0))
                    i2 = h * numpy.tensordot(BOOLE, dd[sl], axes=(0, 0))
                    e1 = numpy.abs((lnw_[-1] - lnw_[0]) + i1).max()
                    e2 = numpy.abs((gg[sl][-1] - gg[sl][0]) - i2).max()
                    worst1, worst2 = max(worst1, e1), max(worst2, e2)
                    ctx.count("triple_consistency_windows")
                # generic (non-polynomial) smoothing-spline pieces can exceed degree 5 only for spline order 5 (degree 5): still exact
                ctx.maxi("triple_gamma_err/tol", worst1 / (tol_f + tol_g))
                ctx.maxi("triple_dgamma_err/tol", worst2 / (tol_g + tol_d))
                if not (worst1 <= tol_f + tol_g):
                    ctx.violation(f"triple:gamma-is-not-minus-dlnw/dlnV:{method}",
                                  f"{cls}: ln w(b)-ln w(a) != -int gamma dx on some window (err {worst1:.3g}, tol {tol_f + tol_g:.3g})", case_id, data_)
                if not (worst2 <= tol_g + tol_d):
                    ctx.violation(f"triple:third-is-not-dgamma/dlnV:{method}",
                                  f"{cls}: gamma(b)-gamma(a) != int (V dgamma/dV) dx on some window (err {worst2:.3g}, tol {tol_g + tol_d:.3g})", case_id, data_)
                # ---- exactness on power-law data (and polynomials up to the order for lsq_poly) ----
                exact = dcls == "power-law" or (method == "lsq_poly" and dcls.startswith("poly") and int(dcls[4:]) <= order)
                if exact:
                    ef, eg, ed = closed_form(par, numpy.exp(xs), dcls)
                    ef, eg, ed = ef[:, mask], eg[:, mask], ed[:, mask]
                    e_f = numpy.abs(numpy.log(ff) - numpy.log(ef)).max()
                    e_g = numpy.abs(gg - eg).max()
                    e_d = numpy.abs(dd - ed).max()
                    ctx.count("exactness_checks")
                    ctx.maxi("exact_w_err/tol", e_f / tol_f)
                    ctx.maxi("exact_gamma_err/tol", e_g / tol_g)
                    ctx.maxi("exact_dgamma_err/tol", e_d / tol_d)
                    for e, tl, nm in ((e_f, tol_f, "frequency"), (e_g, tol_g, "gamma"), (e_d, tol_d, "V-dgamma-dV")):
                        if not (e <= tl):
                            where = "q/m-mixed" if nm != "V-dgamma-dV" and _is_permutation_of_modes(gg, eg) else "value"
                            ctx.violation(f"exactness:{nm}:{method}:{where}", f"{cls}: {nm} differs from the closed form by {e:.3g} (tol {tl:.3g})", case_id, data_)
                            break
                    # history: the same mode data sampled at other interior volumes between the same two end volumes (same count,
                    # same order), straight afterwards in the same process - the interpolant must again be exact
                    w_ = numpy.linspace(0, 1, nv) ** float(rng.choice([0.6, 1.7]))
                    w_[1:-1] += rng.uniform(-0.2, 0.2, size=nv - 2) / nv
                    if rep % 2 == 0 and nv >= 4:
                        # ... every second time also with the same mean of ln V (two interior volumes moved in opposite directions),
                        # so that the sets agree in everything a centred or scaled abscissa would keep
                        w_ = numpy.linspace(0, 1, nv)
                        sh = float(rng.uniform(0.15, 0.35)) / (nv - 1)
                        w_[1] += sh
                        w_[nv - 2] -= sh
                        if nv >= 6:
                            w_[2] -= 0.5 * sh
                            w_[nv - 3] += 0.5 * sh
                    lv = numpy.log(volumes)
                    vol2 = numpy.exp(lv[0] + (lv[-1] - lv[0]) * w_)
                    vol2[0], vol2[-1] = volumes[0], volumes[-1]
                    if rep % 2 == 0 and nv >= 4:
                        lv2 = numpy.log(vol2)
                        lv2[1:-1] += (lv.mean() - lv2.mean()) * nv / (nv - 2)       # same mean of ln V as the first set
                        vol2 = numpy.exp(lv2)
                        vol2[0], vol2[-1] = volumes[0], volumes[-1]
                    if numpy.all(numpy.diff(vol2) < 0) and not numpy.allclose(vol2, volumes, rtol=1e-3):
                        table2 = closed_form(par, vol2, dcls)[0]
                        table2[:, 0, :3] = table[:, 0, :3]
                        r3 = _call(ctx, make_input(vol2, table2), v, method, order, case_id, cls)
                        ctx.evaluation("same-end-volumes-other-interior|" + cls, (method, nv, order, dcls, rep), nontrivial=nontriv)
                        if r3 is not None:
                            f3, g3, d3 = (z[::-1][:, mask] for z in r3)
                            with numpy.errstate(all="ignore"):
                                errs = (numpy.abs(numpy.log(f3) - numpy.log(ef)).max(), numpy.abs(g3 - eg).max(), numpy.abs(d3 - ed).max())
                            ctx.count("exactness_checks")
                            for e, tl, nm in zip(errs, (tol_f, tol_g, tol_d), ("frequency", "gamma", "V-dgamma-dV")):
                                ctx.maxi("exact_followup_err/tol", e / (30 * tl))
                                if not (e <= 30 * tl):
                                    ctx.violation(f"exactness:{nm}:{method}:after-another-volume-set-with-the-same-ends",
                                                  f"{cls}: {nm} differs from the closed form by {e:.3g} (tol {30 * tl:.3g}) for a second volume set with the "
                                                  f"same end volumes and count", case_id, {**data_, "volumes_first": volumes.tolist(), "volumes_second": vol2.tolist()})
                                    break


def _is_permutation_of_modes(got, want):
    """power-law gammas are distinct constants per mode: is the returned set a re-ordering?"""
    try:
        a, b = numpy.sort(got[0]), numpy.sort(want[0])
        return a.shape == b.shape and numpy.allclose(a, b, atol=1e-6) and not numpy.allclose(got[0], want[0], atol=1e-6)
    except Exception:
        return False


class RecAxes:
    def __init__(self):
        self.lines, self.scatters = [], []

    def plot(self, x, y, *a, **k):
        self.lines.append((numpy.asarray(x, float).copy(), numpy.asarray(y, float).copy()))

    def scatter(self, x, y, *a, **k):
        self.scatters.append((numpy.asarray(x, float).copy(), numpy.asarray(y, float).copy()))


def _plot(ctx):
    try:
        from cij.plot.modes import ModePlotter
    except Exception as exc:
        ctx.violation(f"plot-import-raises:{type(exc).__name__}", exc_text(exc))
        return
    for i in range(ctx.pick(12, 3000)):
        case_id = f"plot{i}"
        if not ctx.mine(10 ** 6 + i, case_id):
            continue
        rng = ctx.rng("plot", i)
        nv, nq, np_ = int(rng.integers(3, 8)), int(rng.integers(1, 4)), 3 * int(rng.integers(1, 4))
        ntv = int(rng.integers(4, 12))
        volumes = 500 * numpy.exp(numpy.linspace(0, -0.3, nv))
        table, par = gen_table(rng, volumes, nq, np_, "generic")
        qin = make_input(volumes, table)
        v = 520 * numpy.exp(numpy.linspace(0, -0.4, ntv))
        freq = rng.uniform(50, 1000, size=(ntv, nq, np_))
        gam = rng.uniform(-1, 3, size=(ntv, nq, np_))
        vdg = rng.uniform(-5, 5, size=(ntv, nq, np_))
        calc = SimpleNamespace(qha_input=qin, v_array=v, freq_array=freq, mode_gamma=[vdg, gam, gam ** 2], np=np_, nq=nq)
        for n in (0, 1, 2):
            for iq in range(nq):
                ax = RecAxes()
                try:
                    ModePlotter(calc).plot_modes(ax, n, iq)
                except Exception as exc:
                    if classify_exception(exc) == "code":
                        ctx.violation(f"plot-raises:{type(exc).__name__}:n={n}", exc_text(exc), case_id)
                    else:
                        ctx.harness_error("C11.plot", exc)
                    continue
                want_arr = [freq, gam, vdg][n]
                ks = [k for k in range(np_) if not (iq == 0 and k < 3)]
                ctx.evaluation(f"plot|n={n}", (i, n, iq), nontrivial=bool(ks), sample={"n": n, "iq": iq, "modes": np_, "lines_drawn": len(ax.lines)})
                if len(ax.lines) != len(ks):
                    ctx.violation(f"plot:line-count:n={n}", f"n={n} iq={iq}: {len(ax.lines)} lines for {len(ks)} non-acoustic modes", case_id)
                    continue
                for (x, y), k in zip(ax.lines, ks):
                    if not numpy.allclose(x, U.bohr3_to_ang3(v), rtol=1e-7):
                        ctx.violation(f"plot:x-not-volume-in-ang3:n={n}", f"n={n}: x values {x[:2]} are not the grid volumes in A^3 {U.bohr3_to_ang3(v)[:2]}", case_id)
                        break
                    if not numpy.array_equal(y, want_arr[:, iq, k]):
                        which = [nm for nm, arr in (("frequency", freq), ("gamma", gam), ("V dgamma/dV", vdg), ("gamma^2", gam ** 2))
                                 if numpy.array_equal(y, arr[:, iq, k])]
                        ctx.violation(f"plot:wrong-quantity:n={n}", f"n={n} should draw {['frequency', 'gamma', 'V dgamma/dV'][n]} but draws "
                                      f"{which or 'something else'} (q={iq}, mode {k})", case_id, {"n": n})
                        break
                if n == 0:
                    if len(ax.scatters) != len(ks):
                        ctx.violation("plot:scatter-count", f"n=0: {len(ax.scatters)} scatter series for {len(ks)} modes", case_id)
                    else:
                        for (x, y), k in zip(ax.scatters, ks):
                            if not numpy.allclose(x, U.bohr3_to_ang3(volumes), rtol=1e-7) or not numpy.allclose(y, table[:, iq, k], rtol=1e-12):
                                ctx.violation("plot:scatter-values", "n=0: scatter does not show the raw frequencies at the sampled volumes", case_id)
                                break
                elif ax.scatters:
                    ctx.violation(f"plot:scatter-for-derivative:n={n}", f"n={n}: raw-frequency scatter drawn on a derivative plot", case_id)
