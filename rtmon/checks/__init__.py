"""Per-property metadata used by the runner (shards, watchdogs, evidence wording)."""

_BASE_ASSUME = [
    "CPython, numpy, scipy and sympy arithmetic used by the oracles is correct",
    "the code under test is the working tree at $VERIF_REPO (default /repo), imported directly (no build step)",
    "held on the executions observed; nothing is claimed about inputs the workload did not drive",
]
_QHA = "the QHA layer (package qha) is trusted as supplier of P(T,V), C_V(T,V) and the (T,V) grids, as the property states"


def _m(rule, quick_shards=1, thorough_shards=16, wq=900, wt=3600, assumptions=(), exhaustive=None):
    return {
        "rule": rule,
        "shards": {"quick": quick_shards, "thorough": thorough_shards},
        "watchdog_s": {"quick": wq, "thorough": wt},
        "assumptions": _BASE_ASSUME + list(assumptions),
        "exhaustive": exhaustive,
    }


META = {
    "C01": _m("cases = (spectrum, weights, T grid, V grid, strain pair, component type) drawn from a seeded generator; "
              "distinct = distinct sha1 of the generator parameters; non-trivial = at least one T>0 row, at least one "
              "non-acoustic mode and a non-zero reference value", 4, 16),
    "C02": _m("cases as C01 plus a positive heat-capacity field; non-trivial = some T>0 row with non-zero reference gap "
              "(non-shear) or isothermal != adiabatic dependency stores (shear)", 4, 16, assumptions=[_QHA]),
    "C03": _m("15 shear keys x (21 basis tensors + random tensors + tensor fields) executions of the real solver with spy "
              "dictionaries; distinct = (key, tensor digest); non-trivial = tensor has a non-zero component among those read",
              1, 8, exhaustive="15 keys x 21 canonical basis tensors (all tensors by linearity, linearity itself monitored)"),
    "C04": _m("cases = (spectrum, strain field, request list) run through the real task list; distinct = digest of "
              "(spectrum id, strain class, ordered request tuple); non-trivial = at least one shear key or >=2 keys requested",
              4, 16),
    "C05": _m("cases = synthetic data sets (files written by the oracle) run through the real Calculator; distinct = digest "
              "of generator parameters; non-trivial = >=1 T>0 row and non-zero phonon reference for every judged key",
              8, 16, assumptions=[_QHA]),
    "C06": _m("cases = v2p conversions observed on real Calculator runs, plus overshoot/undershoot pressure grids; distinct = "
              "(data set digest, quantity); non-trivial = quantity varies along V by more than 1e-6 relative",
              8, 16, assumptions=[_QHA]),
    "C07": _m("cases = generated positive-definite stiffness fields pushed through the real compliance/VRH/velocity code; "
              "distinct = field digest; non-trivial = anisotropic field (Voigt != Reuss) with >=1 judged grid point", 2, 16),
    "C08": _m("static half: nine packaged relation sets vs exact Laue-group invariant subspaces; dynamic half: generated "
              "symmetry-consistent tables filled by the real code; distinct = (system, supplied subset, tensor digest); "
              "non-trivial = at least one component generated or dropped", 3, 16,
              exhaustive="subspace equality for all nine systems decided by exact rank computations"),
    "C09": _m("cases = (system, supplied subset, perturbation, flags, dtype/case/order/cwd presentation) through the real "
              "fill_cij / `cij fill`; distinct = digest of those; non-trivial = oracle verdict is not vacuous "
              "(insufficient, inconsistent, or acceptance with >=1 generated column)", 4, 16),
    "C10": _m("the complete finite domain: 81 tuples x spellings, 36 Voigt pairs x spellings, 9 strain spellings, "
              "out-of-range neighbours; distinct = spelling; non-trivial = every in-range spelling", 1, 1,
              exhaustive="all 3^4 tuples, 6^2 Voigt pairs, all pairwise equalities (81x81) and the out-of-range ring"),
    "C11": _m("cases = (method, order, #volumes, data class, expansion ratio) through the real interpolate_modes; distinct "
              "= digest; non-trivial = >=1 non-acoustic mode with non-constant gamma or power-law exactness judged", 4, 16),
    "C12": _m("cases = (interpolator, order, system, T grid, component set, data set) through the real Calculator; distinct = "
              "digest; non-trivial = construction attempted on in-domain input", 8, 16, assumptions=[_QHA]),
    "C13": _m("metamorphic pairs (baseline, re-presented) through the real Calculator; distinct = (data set, transformation "
              "digest); non-trivial = the re-presented order actually differs from the baseline as read by the code", 8, 16,
              assumptions=[_QHA]),
    "C14": _m("subprocess histories (hash seeds x working directories) and in-process operation histories; distinct = "
              "history digest; non-trivial = history has >=2 operations or differs from canonical in seed/cwd", 8, 16,
              assumptions=[_QHA]),
    "C15": _m("cases = (data set, base, keyword/alias/override) written by the real writer and parsed back by the oracle's "
              "reader; distinct = digest; non-trivial = file has >=1 data cell compared", 8, 16, assumptions=[_QHA]),
    "C16": _m("cases = generated nested dictionaries for the merge and single-field perturbations for validation; distinct = "
              "digest; non-trivial = both inputs non-empty (merge) / perturbation differs from base (validation)", 2, 16),
    "C17": _m("cases = generated phonon data sets and static tables written then read by the real readers, and `cij fill` "
              "round trips; distinct = digest; non-trivial = >=1 value compared", 4, 16),
    "C18": _m("cases = real `cij run-static` invocations (mode x grid x options) on generated data; distinct = digest; "
              "non-trivial = >=3 rows judged", 8, 16),
    "C19": _m("cases = real `cij extract` / `extract-geotherm` invocations on oracle-written tables; distinct = digest; "
              "non-trivial = >=1 value compared", 8, 16),
    "C20": _m("cases = generated bases/permutations/phases/perturbations, displacement sets and matdyn files; distinct = "
              "digest; non-trivial = permutation not identity / >=2 vectors / >=1 mode parsed", 2, 16),
}
