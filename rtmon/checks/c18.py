"""C18 - run-static reports a consistent static EoS and elasticity table in every mode."""
import os
import subprocess

import numpy

from ..e2e import E2E
from ..oracles import laue
from ..oracles import tensor as T
from ..oracles import units as U
from ..workloads import files as WF
from ..trace import CallCounter
from ..runner import classify_exception, exc_site, exc_text, repo_dir, PY

PRINT_ABS = 1.5e-6          # pandas prints at most six decimals


class FitE:
    """Own least-squares polynomial (degree 2 = second-order finite strain) in Eulerian strain, reference = first volume."""

    def __init__(self, volumes, values, degree=2):
        self.v0 = float(volumes[0])
        f = self.f(numpy.asarray(volumes, float))
        A = numpy.vander(f, degree + 1, increasing=True)
        self.c, *_ = numpy.linalg.lstsq(A, numpy.asarray(values, float), rcond=None)

    def f(self, v):
        return ((self.v0 / v) ** (2.0 / 3.0) - 1) / 2

    def __call__(self, v):
        f = self.f(numpy.asarray(v, float))
        return sum(c * f ** k for k, c in enumerate(self.c))

    def pressure(self, v):
        v = numpy.asarray(v, float)
        f = self.f(v)
        dedf = sum(k * c * f ** (k - 1) for k, c in enumerate(self.c) if k > 0)
        dfdv = -(1.0 / 3.0) * self.v0 ** (2.0 / 3.0) * v ** (-5.0 / 3.0)
        return -dedf * dfdv


def parse_table(text):
    lines = [ln for ln in text.splitlines() if ln.strip()]
    header = lines[0].split()
    rows = []
    for ln in lines[1:]:
        w = ln.split()
        rows.append([float(x) for x in w[1:]])
    arr = numpy.array(rows)
    return header, {h: arr[:, k] for k, h in enumerate(header)}, [int(ln.split()[0]) for ln in lines[1:]]


def run(ctx):
    cc = CallCounter().start()
    try:
        with E2E(ctx, nonshear=False, tasks=False) as e2e:
            _run(ctx, e2e)
    finally:
        cc.stop()
    cc.report(ctx, ["static.py:main", "static.py:main.<locals>.fit_modulus", "static.py:main.<locals>.v2p1d", "fill.py:fill_cij"])
    ctx.require("rows_judged", 200)
    ctx.require("mode:none", 2)
    ctx.require("mode:volume", 2)
    ctx.require("mode:pressure", 2)


def _run(ctx, e2e):
    from click.testing import CliRunner
    import cij.cli.static
    n = ctx.pick(54, 8640)
    for i in range(n):
        case_id = f"inv{i}"
        if not ctx.mine(i, case_id):
            continue
        rng = ctx.rng("inv", i)
        mode = ["none", "volume", "pressure"][i % 3]
        ntv = [11, 51, 201, 401][(i // 3) % 4]
        with_table = (i // 12) % 3 != 2
        use_system = with_table and (i // 2) % 2 == 0
        system = laue.SYSTEMS[(i // 3) % 9]
        ds = WF.gen_dataset(rng, system=system, nq=1, natoms=1, components="needed" if use_system else "all-nonzero", lattice=bool(i % 2))
        cfg = {"qha": {"input": "input01", "settings": {}}, "elast": {"input": "input02", "settings": {}}}
        wd = e2e.workdir(case_id)
        WF.write_dataset(ds, cfg, wd)
        v_ratio = float(rng.choice([1.05, 1.2, 1.3]))
        args = [os.path.join(wd, "input01")]
        if with_table:
            args.append(os.path.join(wd, "input02"))
        args += ["-I", mode, "-n", str(ntv), "--v-ratio", str(v_ratio)]
        cellmass = None
        if with_table and i % 5 == 0:
            cellmass = round(float(rng.uniform(30, 500)), 3)
            args += ["--cellmass", str(cellmass)]
        if use_system:
            args += ["-s", system]
        fit = FitE(ds.volumes, ds.energies)
        grid = numpy.linspace(ds.volumes.min() / v_ratio, ds.volumes.max() * v_ratio, ntv)
        h = grid[1] - grid[0]
        p_min = dp = step = None
        if mode == "pressure":
            pg = U.au_to_gpa(fit.pressure(grid))
            lo, hi = pg[-3], pg[2]          # pressure decreases with V: keep away from the two end cells
            p_min = round(float(lo + (hi - lo) * rng.uniform(0.05, 0.3)), 3)
            top = float(hi - (hi - lo) * rng.uniform(0.05, 0.3))
            dp = (top - p_min) / (ntv - 1)
            dp_text = repr(dp)
            if i % 2:
                # intervals as people type them: decimal fractions (0.1, 0.25, 0.4 ...), the sampling interval an exact decimal multiple
                nice = [d_ for d_ in (0.01, 0.02, 0.05, 0.1, 0.2, 0.25, 0.4, 0.5, 0.7, 1.0, 2.0, 2.5, 5.0) if d_ <= dp]
                if nice:
                    dp = nice[-1] if rng.random() < 0.5 else nice[int(rng.integers(0, len(nice)))]
                    dp_text = repr(dp)
            args += ["--p-min", repr(p_min), "--delta-p", dp_text]
            if i % 4 in (1, 3):
                step = int(rng.integers(2, 8))
                from decimal import Decimal
                sample_text = str(Decimal(dp_text) * step) if i % 2 else repr(dp * step)
                args += ["--delta-p-sample", sample_text]
        via_sub = (i % 18 == 5)
        try:
            if via_sub:
                env = dict(os.environ, PYTHONPATH=f"{repo_dir()}:{os.environ.get('PYTHONPATH', '')}")
                p = subprocess.run([PY, "-c", "from cij.cli.cij import main; main()", "run-static"] + args, capture_output=True, text=True, env=env,
                                   timeout=600, cwd=wd)
                rc, out, err = p.returncode, p.stdout, p.stderr[-1500:]
            else:
                with numpy.errstate(all="ignore"):
                    res = CliRunner().invoke(cij.cli.static.main, args)
                rc, out = res.exit_code, res.stdout
                err = "".join(__import__("traceback").format_exception(res.exception)) if res.exception else ""
        except Exception as exc:
            ctx.harness_error("C18.invoke", exc)
            continue
        cls = f"{mode}|ntv={ntv}|{'table' if with_table else 'no-table'}{'+system' if use_system else ''}{'+cellmass' if cellmass else ''}"
        sample = {"mode": mode, "ntv": ntv, "v_ratio": v_ratio, "system": system if use_system else None, "static_table": with_table, "cellmass_option": cellmass,
                  "p_min": p_min, "delta_p": dp, "volumes_in_file": ds.nv, "via": "subprocess" if via_sub else "CliRunner"}
        ctx.evaluation(cls, (i, mode, ntv, with_table, use_system), sample=sample)
        data = {"args": args[2:] if with_table else args[1:], **sample}
        if rc != 0:
            ctx.violation(f"command-fails:{mode}:{'with-table' if with_table else 'no-table'}", f"cij run-static {' '.join(args[-6:])}: exit {rc}\n{err[-1200:]}", case_id, data)
            continue
        try:
            header, col, index = parse_table(out)
        except Exception as exc:
            ctx.violation("unparsable-output", f"{exc!r}\n{out[:400]}", case_id, data)
            continue
        for need in ("V", "F", "P"):
            if need not in col:
                ctx.violation("column-missing:" + need, f"columns {header}", case_id, data)
        if not all(k in col for k in ("V", "F", "P")):
            continue
        V = U.ang3_to_bohr3(col["V"])
        nrows = len(V)
        ctx.count("mode:" + mode)
        # ---- rows / V column ---------------------------------------------------------------------------------------
        if mode == "none":
            want_v = ds.volumes
        elif mode == "volume":
            want_v = grid
        else:
            want_v = None
        dv_print = U.ang3_to_bohr3(PRINT_ABS)
        if want_v is not None:
            if nrows != len(want_v) or numpy.abs(col["V"] - U.bohr3_to_ang3(want_v)).max() > PRINT_ABS:
                ctx.violation(f"V-column:{mode}", f"{nrows} rows, V = {col['V'][:3]}..., expected {U.bohr3_to_ang3(want_v)[:3]}... A^3", case_id, data)
                continue
            V = numpy.asarray(want_v, float)       # the exact volumes (the printed ones carry six decimals only)
            dv_print = 0.0
        else:
            want_p = p_min + dp * numpy.arange(ntv)
            if step:
                want_p = want_p[::step]
            if nrows != len(want_p) or numpy.abs(col["P"] - want_p).max() > PRINT_ABS + 1e-9 * numpy.abs(want_p).max():
                ctx.violation("P-rows:pressure-mode", f"{nrows} rows at P = {col['P'][:3]}..., requested {want_p[:3]}...", case_id, data)
                continue
        # ---- P is -dE_fit/dV at the reported V ------------------------------------------------------------------------
        fine = numpy.linspace(grid[0], grid[-1], 4001)
        pf = fit.pressure(fine)
        d2p = numpy.gradient(numpy.gradient(pf, fine), fine)          # P'' = -E''' of the fit
        d1p = numpy.gradient(pf, fine)
        tol_interior = 2 * (h ** 2 / 6) * numpy.abs(d2p).max() + 2 * h ** 4 * numpy.abs(numpy.gradient(numpy.gradient(d2p, fine), fine)).max()
        tol_edge = 2 * (h / 2) * numpy.abs(d1p).max()
        p_ref = U.au_to_gpa(fit.pressure(V))
        tol = numpy.full(nrows, U.au_to_gpa(tol_interior)) + PRINT_ABS + U.au_to_gpa(numpy.abs(d1p).max()) * dv_print
        if mode == "volume":
            tol[[0, -1]] = U.au_to_gpa(tol_edge) + PRINT_ABS
            tol[[1, -2]] += U.au_to_gpa(tol_interior)
        errp = numpy.abs(col["P"] - p_ref) / tol
        ctx.maxi(f"P_err/tol[{mode}]", errp.max())
        if not (errp.max() <= 1.0):
            j = int(numpy.argmax(errp))
            ctx.violation(f"P-is-not-minus-dE/dV:{mode}", f"row {j}: P = {col['P'][j]} GPa, -dE_fit/dV at V = {col['V'][j]} A^3 is {p_ref[j]:.6f} GPa "
                          f"(tolerance {tol[j]:.2g})", case_id, data)
        # ---- F --------------------------------------------------------------------------------------------------------------
        if mode == "none":
            f_ref, tol_f = U.ry_to_ev(ds.energies), PRINT_ABS + 1e-9 * numpy.abs(U.ry_to_ev(ds.energies)).max()
        else:
            f_ref = U.ry_to_ev(fit(V))
            rng_e = numpy.ptp(U.ry_to_ev(fit(grid)))
            tol_f = PRINT_ABS + 1e-9 * numpy.abs(f_ref).max() + (500 * rng_e / (ntv - 1) ** 4 if mode == "pressure" else 0) \
                + numpy.abs(U.ry_to_ev(fit.pressure(V))) * dv_print
        errf = numpy.abs(col["F"] - f_ref) / tol_f
        ctx.maxi(f"F_err/tol[{mode}]", errf.max())
        if not (errf.max() <= 1.0):
            j = int(numpy.argmax(errf))
            looks = "V" if abs(col["F"][j] - U.ry_to_ev(V[j])) < 1e-3 * abs(U.ry_to_ev(V[j])) or abs(col["F"][j] - col["V"][j] * U.RY_EV / U.ANG3_PER_BOHR3) < 1e-3 * abs(col["F"][j]) else "other"
            ctx.violation(f"F-column:{mode}:{'repeats-V' if looks == 'V' else 'mismatch'}", f"row {j}: F = {col['F'][j]} eV, expected {f_ref[j]:.6f} eV "
                          f"({'input energy' if mode == 'none' else 'fit at the reported V'})", case_id, data)
        ctx.count("rows_judged", nrows)
        if not with_table:
            extra = [hh for hh in header if hh not in ("V", "F", "P")]
            if extra:
                ctx.violation("columns-without-table", f"no static table given but columns {extra} printed", case_id, data)
            continue
        # ---- density, moduli, VRH, velocities ----------------------------------------------------------------------------------
        mass = cellmass if cellmass else ds.cellmass
        rho = U.density_gcm3(mass, V)
        if "density" not in col or numpy.abs(col["density"] - rho).max() > PRINT_ABS + 1e-7 * rho.max():
            ctx.violation(f"density:{'cellmass-option' if cellmass else 'from-table'}", f"density {col.get('density', [None])[0]} vs m/(N_A V) = {rho[0]:.6f} g/cm^3", case_id, data)
        full = numpy.zeros((nrows, 21))
        for cidx in ds.columns:
            full[:, cidx] = FitE(ds.static_volumes, ds.table_gpa[:, cidx])(V)
        if use_system:
            B = laue.invariant_basis(system)
            coef, *_ = numpy.linalg.lstsq(B[list(ds.columns), :], full[:, list(ds.columns)].T, rcond=None)
            full = (B @ coef).T
        bad = False
        for nidx, (a, b) in enumerate(T.VOIGT21):
            nm = "c%d%d" % (a, b)
            want = full[:, nidx]
            if nm in col:
                e = numpy.abs(col[nm] - want).max()
                slope = numpy.abs(numpy.gradient(want, V)).max() if nrows > 1 else 0.0
                if e > PRINT_ABS + 1e-8 * numpy.abs(want).max() + 2 * slope * dv_print:
                    ctx.violation(f"modulus-column:{'filled' if nidx not in ds.columns else 'fitted'}", f"{nm} = {col[nm][:2]} vs finite-strain fit at the row volume {want[:2]}", case_id, data)
                    bad = True
                    break
            elif numpy.abs(want).max() > 1e-6:
                ctx.violation("modulus-column:missing", f"{nm} (up to {numpy.abs(want).max():.4g} GPa) not printed", case_id, data)
                bad = True
                break
        if bad:
            continue
        c66 = numpy.zeros((nrows, 6, 6))
        for nidx, (a, b) in enumerate(T.VOIGT21):
            c66[:, a - 1, b - 1] = c66[:, b - 1, a - 1] = full[:, nidx]
        ev = numpy.linalg.eigvalsh(c66)
        pd = ev[:, 0] > 1e-3 * ev[:, -1]
        if not pd.any():
            continue
        ref = T.vrh_from_c66(numpy.where(pd[:, None, None], c66, numpy.eye(6)))
        slope_max = max(numpy.abs(numpy.gradient(full[:, n_], V)).max() for n_ in range(21)) if nrows > 1 else 0.0
        vprop = 6 * slope_max * dv_print          # moduli evaluated at the printed (six-decimal) volume
        for nm, rk in (("bm_V", "kv"), ("bm_R", "kr"), ("bm_VRH", "kh"), ("G_V", "gv"), ("G_R", "gr"), ("G_VRH", "gh")):
            if nm not in col:
                ctx.violation("average-missing:" + nm, f"columns {header}", case_id, data)
                continue
            e = (numpy.abs(col[nm] - ref[rk]) / (PRINT_ABS + 1e-7 * numpy.abs(ref[rk]) + vprop))[pd]
            ctx.maxi("vrh_err/tol", e.max())
            if e.max() > 1:
                j = numpy.where(pd)[0][int(numpy.argmax(e))]
                ctx.violation(f"average:{nm}", f"row {j}: {nm} = {col[nm][j]}, full-tensor value {ref[rk][j]:.6f} GPa", case_id, data)
        for nm, mod in (("v_p", ref["kh"] + 4.0 / 3.0 * ref["gh"]), ("v_s", ref["gh"]), ("v_phi", ref["kh"])):
            if nm not in col:
                ctx.violation("velocity-missing:" + nm, f"columns {header}", case_id, data)
                continue
            want = numpy.sqrt(numpy.where(pd, mod, 1.0) / rho)          # sqrt(GPa / (g/cm^3)) = km/s
            e = (numpy.abs(col[nm] - want) / (PRINT_ABS + 1e-6 * want + vprop / 50))[pd]
            ctx.maxi("velocity_err/tol", e.max())
            if e.max() > 1:
                j = numpy.where(pd)[0][int(numpy.argmax(e))]
                ctx.violation(f"velocity:{nm}", f"row {j}: {nm} = {col[nm][j]} km/s, expected {want[j]:.6f}", case_id, data)
