"""C09 - fill refuses exactly when under-determined or inconsistent; never distorts data."""
import os
import shutil
import subprocess
import sys
import tempfile

import numpy
import sympy

from ..oracles import laue
from ..oracles import tensor as T
from ..workloads import filltables as FT
from ..trace import CallCounter
from ..runner import classify_exception, exc_site, exc_text, repo_dir, PY

BIG, SMALL = 5.0, 0.01          # perturbations away from the refusal threshold (GPa)
BOUND = numpy.sqrt(0.1)         # sqrt(default residual tolerance)


def run(ctx):
    cc = CallCounter().start()
    try:
        _refusals(ctx)
        _presentation(ctx)
        _threshold(ctx)
        _environment(ctx)
    finally:
        cc.stop()
    cc.report(ctx, ["fill.py:fill_cij"])


def call_fill(ctx, df, system, case_id, cls, **kw):
    """Run the real fill_cij; classify the outcome as ('ok', frame) / ('refused', exc) / ('error', exc)."""
    from cij.util.fill import fill_cij
    try:
        res = fill_cij(df, system, **kw)
        ctx.count("acceptances_observed")
        return "ok", res
    except Warning as exc:
        ctx.count("refusals_observed")
        return "refused", exc
    except Exception as exc:
        if classify_exception(exc) != "code":
            ctx.harness_error("C09.call_fill", exc)
            return "harness", exc
        return "error", exc


def dependent_pair(system, S, rng):
    """A supplied coordinate whose value is implied by the other supplied ones (so that
    perturbing it contradicts the relations).  None if there is none."""
    B = laue.invariant_basis(system)
    cands = []
    for i in S:
        others = [j for j in S if j != i]
        if not others:
            continue
        r0 = numpy.linalg.matrix_rank(B[others, :], tol=1e-9)
        r1 = numpy.linalg.matrix_rank(B[others + [i], :], tol=1e-9)
        if r1 == r0:            # row i is a combination of the other supplied rows
            cands.append(i)
    if not cands:
        return None
    return int(rng.choice(cands))


def lsq_residual(system, S, values):
    """Independent prediction of the squared residual of [supplied; relations] (per volume)."""
    A_rel = numpy.array(laue.constraint_matrix(system).tolist(), dtype=float).reshape(-1, 21)
    return A_rel


def relation_violation(system, x21):
    """Distance of a filled tensor from the invariant subspace (max abs component)."""
    return numpy.abs(x21 - laue.project(system, x21)).max()


def _refusals(ctx):
    per_system = ctx.pick(28, 9000)
    k = 0
    for system in laue.SYSTEMS:
        B = laue.invariant_basis(system)
        for n in range(per_system):
            k += 1
            case_id = f"ref-{system}-{n}"
            if not ctx.mine(k, case_id):
                continue
            rng = ctx.rng("ref", system, n)
            nrows = int(rng.integers(1, 9))
            field = FT.invariant_field(rng, system, nrows)
            kind = ["sufficient", "insufficient", "inconsistent-big", "inconsistent-small", "insufficient+inconsistent",
                    "zero-by-symmetry-nonzero"][n % 6]
            flags = [(False, False), (True, False), (False, True), (True, True)][(n // 6) % 4]   # (ignore_residuals, ignore_rank)
            ign_res, ign_rank = flags
            kw = {}
            if ign_res:
                kw["ignore_residuals"] = True
            if ign_rank:
                kw["ignore_rank"] = True
            if kind in ("sufficient", "inconsistent-big", "inconsistent-small", "zero-by-symmetry-nonzero"):
                S = FT.superset(rng, FT.minimal_sufficient(rng, system), 0.4)
            else:
                S = FT.insufficient_subset(rng, system)
            if not S:
                S = [0]
            suff = laue.sufficient(system, S)
            if (kind in ("insufficient", "insufficient+inconsistent")) == suff:
                ctx.count("generator_skips")
                continue
            inconsistent = None
            f2 = field.copy()
            if kind in ("inconsistent-big", "inconsistent-small", "insufficient+inconsistent"):
                i = dependent_pair(system, S, rng)
                if i is None:
                    if kind == "insufficient+inconsistent":
                        # make one: supply two coordinates tied by a relation
                        ctx.count("generator_skips")
                        continue
                    ctx.count("generator_skips")
                    continue
                delta = BIG * float(rng.uniform(1, 8)) if kind != "inconsistent-small" else SMALL * float(rng.uniform(0.01, 1))
                rows = rng.random(nrows) < 0.6
                rows[int(rng.integers(0, nrows))] = True
                f2[rows, i] += delta * rng.choice([-1, 1])
                inconsistent = "big" if kind != "inconsistent-small" else "small"
            elif kind == "zero-by-symmetry-nonzero":
                zeros = [i for i in range(21) if not numpy.any(B[i, :])]
                if not zeros:
                    ctx.count("generator_skips")
                    continue
                i = int(rng.choice(zeros))
                if i not in S:
                    S = sorted(S + [i])
                f2[:, i] = BIG * float(rng.uniform(1, 8))
                inconsistent = "big"
            # expected refusal
            must_refuse_rank = (not suff) and not ign_rank
            must_refuse_res = (inconsistent == "big") and not ign_res
            expect_refuse = must_refuse_rank or must_refuse_res
            extra = {"note": numpy.arange(nrows, dtype=float) + 0.5, "P": numpy.linspace(-3.0, 40.0, nrows) if nrows > 1 else numpy.array([7.0])}
            df = FT.make_frame(f2, S, rng, extra=extra, shuffle=True)
            df0 = df.copy(deep=True)
            status, res = call_fill(ctx, df, system, case_id, kind, **kw)
            cls = f"{kind}|ign_res={int(ign_res)},ign_rank={int(ign_rank)}"
            sample = {"system": system, "class": cls, "supplied": [FT.NAMES[s] for s in S], "rows": nrows, "outcome": status,
                      "expected": "refuse" if expect_refuse else "accept"}
            ctx.evaluation(cls, (system, n, tuple(S)), nontrivial=True, sample=sample)
            data = {"system": system, "supplied": [FT.NAMES[s] for s in S], "flags": kw, "table": df0.to_dict(orient="list")}
            if status == "harness":
                continue
            if status == "error":
                ctx.violation(f"fill-error:{type(res).__name__}:{exc_site(res)}:{kind}", f"{system} {cls}: {exc_text(res)}", case_id, data)
                continue
            if expect_refuse and status == "ok":
                why = "rank" if must_refuse_rank and not must_refuse_res else "residual" if must_refuse_res and not must_refuse_rank else "rank+residual"
                tag = system if system == "triclinic" else "any-system"
                ctx.violation(f"refusal-missing:{why}:{cls.split('|')[1]}:{tag}",
                              f"{system} {cls}: supplied {sample['supplied']} should be refused ({why}) but was accepted", case_id, data)
                continue
            if (not expect_refuse) and status == "refused":
                ctx.violation(f"refused-acceptable:{kind}:{cls.split('|')[1]}",
                              f"{system} {cls}: supplied {sample['supplied']} is acceptable but was refused: {res}", case_id, data)
                continue
            if status != "ok":
                continue
            # ---- accepted: nothing distorted ---------------------------------------------
            out = FT.frame_moduli(res)
            if not ign_res:
                for i in S:
                    nm = FT.NAMES[i]
                    if nm in out:
                        mv = numpy.abs(out[nm] - f2[:, i]).max()
                        ctx.maxi("supplied_move/bound", mv / BOUND)
                        if mv > BOUND:
                            ctx.violation(f"supplied-value-moved:{kind}", f"{system} {cls}: {nm} moved by {mv:.3g} (> {BOUND:.3g})", case_id, data)
                    elif numpy.any(numpy.abs(f2[:, i]) > 1e-8 + BOUND):
                        ctx.violation(f"supplied-column-dropped:{kind}", f"{system} {cls}: supplied non-zero {nm} absent from output", case_id, data)
                if suff:
                    x = numpy.zeros((nrows, 21))
                    for nm, col in out.items():
                        x[:, FT.NAMES.index(nm)] = col
                    viol = max(relation_violation(system, x[r]) for r in range(nrows))
                    ctx.maxi("relation_violation/bound", viol / BOUND)
                    if viol > BOUND:
                        ctx.violation(f"relation-violated:{kind}", f"{system} {cls}: output violates the symmetry by {viol:.3g}", case_id, data)
            if inconsistent is None and suff:
                # exactly consistent: result is the invariant tensor (C08) -> cheap cross-check of generated columns
                for i, nm in enumerate(FT.NAMES):
                    if nm in out and numpy.abs(out[nm] - field[:, i]).max() > 1e-7 * max(1, numpy.abs(field).max()):
                        ctx.violation(f"consistent-data-distorted:{kind}", f"{system} {cls}: {nm} differs from the invariant tensor", case_id, data)
                        break
            for nm, col in extra.items():
                if nm not in res.columns:
                    ctx.violation("non-modulus-column-lost", f"{system} {cls}: column {nm!r} missing from output", case_id, data)
                elif not numpy.array_equal(res[nm].to_numpy(), col):
                    ctx.violation("non-modulus-column-changed", f"{system} {cls}: column {nm!r} changed", case_id, data)
            if "V" not in res.columns or not numpy.array_equal(res["V"].to_numpy(), df0["V"].to_numpy()):
                ctx.violation("non-modulus-column-changed", f"{system} {cls}: V column changed or lost", case_id, data)
    ctx.require("refusals_observed", 10)
    ctx.require("acceptances_observed", 10)


def _presentation(ctx):
    """Same data, different presentation: column order, letter case, int vs float, explicit defaults, drop tolerance."""
    per_system = ctx.pick(10, 2400)
    k = 10 ** 6
    for system in laue.SYSTEMS:
        B = laue.invariant_basis(system)
        for n in range(per_system):
            k += 1
            case_id = f"pres-{system}-{n}"
            if not ctx.mine(k, case_id):
                continue
            rng = ctx.rng("pres", system, n)
            nrows = int(rng.integers(1, 7))
            field = FT.invariant_field(rng, system, nrows, integer=True)
            S = FT.superset(rng, FT.minimal_sufficient(rng, system), 0.3)
            extra = {"P": numpy.zeros(nrows), "T": numpy.full(nrows, 300.0)}      # an all-zero non-modulus column
            base = FT.make_frame(field, S, extra=extra)
            st0, r0 = call_fill(ctx, base.copy(deep=True), system, case_id, "baseline")
            ctx.evaluation("presentation-baseline", (system, n), sample={"system": system, "supplied": [FT.NAMES[s] for s in S]})
            data = {"system": system, "supplied": [FT.NAMES[s] for s in S], "table": base.to_dict(orient="list")}
            if st0 != "ok":
                if st0 != "harness":
                    ctx.violation(f"presentation:baseline-not-accepted:{type(r0).__name__}:{exc_site(r0) if st0 == 'error' else 'refused'}",
                                  f"{system}: consistent float table not accepted: {exc_text(r0)}", case_id, data)
                continue
            m0 = FT.frame_moduli(r0)
            for nm, col in extra.items():
                if nm not in r0.columns or not numpy.array_equal(r0[nm].to_numpy(), col):
                    ctx.violation(f"non-modulus-column-lost:all-zero={bool(not numpy.any(col))}",
                                  f"{system}: non-modulus column {nm!r} (values {col[:3]}) lost or changed by fill", case_id, data)
            variants = {
                "index:" + FT.INDEX_KINDS[1 + n % 4]: FT.reindex(FT.make_frame(field, S, extra=extra), FT.INDEX_KINDS[1 + n % 4], rng),
                "permuted": FT.make_frame(field, S, rng, extra=extra, shuffle=True),
                "uppercase": FT.make_frame(field, S, extra=extra, upper=True),
                "int-dtype": FT.make_frame(field, S, extra=extra, as_int=True),
                "int-dtype-upper-permuted": FT.make_frame(field, S, rng, extra=extra, as_int=True, upper=True, shuffle=True),
            }
            for vname, df in variants.items():
                st, r = call_fill(ctx, df.copy(deep=True), system, case_id, vname)
                ctx.evaluation("presentation-" + vname, (system, n, vname))
                if st == "harness":
                    continue
                if st != "ok":
                    site = exc_site(r) if st == "error" else "refused"
                    ctx.violation(f"presentation:{vname}:{st}:{type(r).__name__}:{site}",
                                  f"{system}: the same numbers presented as {vname} were not accepted: {exc_text(r)}", case_id,
                                  {**data, "variant": vname})
                    continue
                m = FT.frame_moduli(r)
                if set(m) != set(m0) or any(numpy.abs(m[nm] - m0[nm]).max() > 1e-9 * max(1, numpy.abs(m0[nm]).max()) for nm in m0):
                    ctx.violation(f"presentation:{vname}:different-result", f"{system}: result depends on presentation {vname}", case_id,
                                  {**data, "variant": vname})
                if len({str(c).lower() for c in r.columns}) != len(r.columns):
                    ctx.violation(f"presentation:{vname}:duplicate-columns", f"{system}: duplicate columns {list(r.columns)}", case_id)
            st, r = call_fill(ctx, base.copy(deep=True), system, case_id, "explicit", drop_atol=1e-8, residual_atol=0.1,
                              ignore_rank=False, ignore_residuals=False)
            ctx.evaluation("presentation-explicit-defaults", (system, n, "explicit"))
            if st == "ok":
                m = FT.frame_moduli(r)
                if set(m) != set(m0) or any(not numpy.array_equal(m[nm], m0[nm]) for nm in m0):
                    ctx.violation("defaults-changed", f"{system}: passing the documented default tolerances explicitly changes the result", case_id, data)
            elif st != "harness":
                ctx.violation("defaults-changed", f"{system}: explicit default tolerances -> {st}: {r}", case_id, data)
            # drop tolerance: a symmetry-allowed component that is tiny at all volumes
            nz = [i for i in range(21) if numpy.any(B[i, :])]
            tiny_coef = numpy.zeros(B.shape[1])
            jb = int(rng.integers(0, B.shape[1]))
            f3 = FT.invariant_field(rng, system, nrows)
            coef3, *_ = numpy.linalg.lstsq(B, f3.T, rcond=None)
            for mag, atol, expect_present in ((1e-5, 1e-3, False), (1e-2, 1e-3, True), (1e-5, 1e-8, True), (1e-10, 1e-8, False),
                                              (1e-5, None, True), (1e-10, None, False)):
                c = coef3.copy()
                c[jb, :] = mag
                f4 = (B @ c).T
                S4 = list(range(21))
                kw4 = {} if atol is None else {"drop_atol": atol}
                atol = 1e-8 if atol is None else atol          # the documented default
                tiny = [i for i in nz if numpy.all(numpy.abs(f4[:, i]) <= atol * 0.5)]
                bigc = [i for i in nz if numpy.any(numpy.abs(f4[:, i]) > atol * 2)]
                st, r = call_fill(ctx, FT.make_frame(f4, S4), system, case_id, "drop", **kw4)
                ctx.evaluation("drop-tolerance", (system, n, mag, atol))
                if st != "ok":
                    if st != "harness":
                        ctx.violation(f"drop:{st}", f"{system}: complete consistent table not accepted with drop_atol={atol}: {r}", case_id)
                    continue
                m = FT.frame_moduli(r)
                kept_tiny = [FT.NAMES[i] for i in tiny if FT.NAMES[i] in m]
                lost_big = [FT.NAMES[i] for i in bigc if FT.NAMES[i] not in m]
                if kept_tiny:
                    ctx.violation(f"drop:sub-tolerance-kept:{'default' if not kw4 else 'explicit'}", f"{system}: {kept_tiny} below drop_atol={atol} at all volumes but kept", case_id,
                                  {"system": system, "atol": atol, "mag": mag})
                if lost_big:
                    ctx.violation(f"drop:super-tolerance-dropped:{'default' if not kw4 else 'explicit'}", f"{system}: {lost_big} above drop_atol={atol} but dropped", case_id,
                                  {"system": system, "atol": atol, "mag": mag})
            # a component that crosses the drop tolerance (below it at some volumes, above it at others) is not "below at all
            # volumes": it stays, and - the table being complete and exactly consistent - every entry of it stays what was supplied
            if nrows >= 2:
                for atol in (1e-3, 0.5, 2.0):
                    c = coef3.copy()
                    lowrow = numpy.arange(nrows) % 2 == int(rng.integers(0, 2))
                    c[jb, :] = numpy.where(lowrow, atol * 0.5, atol * 6.0) * rng.choice([-1.0, 1.0], nrows)
                    f5 = (B @ c).T
                    st, r = call_fill(ctx, FT.make_frame(f5, list(range(21))), system, case_id, "drop-crossing", drop_atol=atol)
                    ctx.evaluation("drop-tolerance-crossing", (system, n, atol))
                    if st != "ok":
                        if st != "harness":
                            ctx.violation(f"drop:{st}", f"{system}: complete consistent table not accepted with drop_atol={atol}: {r}", case_id)
                        continue
                    m = FT.frame_moduli(r)
                    for i in nz:
                        col = f5[:, i]
                        if not numpy.any(numpy.abs(col) > atol * 2):
                            continue
                        nm = FT.NAMES[i]
                        if nm not in m:
                            ctx.violation("drop:super-tolerance-dropped:crossing", f"{system}: {nm} exceeds drop_atol={atol} at some volumes but was dropped",
                                          case_id, {"system": system, "atol": atol})
                        elif numpy.abs(m[nm] - col).max() > 1e-7 * max(1.0, numpy.abs(f5).max()):
                            ctx.violation("drop:entries-below-tolerance-changed", f"{system}: {nm} is kept (above drop_atol={atol} at some volumes) but its "
                                          f"entries moved by {numpy.abs(m[nm] - col).max():.3g}", case_id, {"system": system, "atol": atol, "supplied": col.tolist(),
                                                                                                     "returned": m[nm].tolist()})


def write_relation_file(path, system, rng, want_rows=False):
    """User-written relations equivalent to the Laue invariants of ``system``: reduced rows of
    the oracle's constraint matrix, re-scaled, re-ordered and partly chained."""
    A = laue.constraint_matrix(system)
    lines = []
    eq_rows = []
    if A.rows:
        rref, piv = A.rref()
        rows = [rref[i, :] for i in range(len(piv))]
        syms = [sympy.Symbol(nm) for nm in FT.NAMES]
        zero_syms = []
        for row in rows:
            nzs = [(j, row[j]) for j in range(21) if row[j] != 0]
            if len(nzs) == 1:
                zero_syms.append(FT.NAMES[nzs[0][0]])
                continue
            scale = int(rng.choice([1, 2, -1, 3]))
            lhs = sum(scale * c * syms[j] for j, c in nzs[:1])
            rhs = -sum(scale * c * syms[j] for j, c in nzs[1:])
            lines.append(f"{sympy.sstr(lhs)} = {sympy.sstr(rhs)}")
            eq_rows.append([float(scale * row[j]) for j in range(21)])
        rng.shuffle(zero_syms)
        while zero_syms:
            take = int(rng.integers(1, 5))
            chunk, zero_syms = zero_syms[:take], zero_syms[take:]
            lines.append(" = ".join(chunk) + " = 0")
            # "a = b = 0" states a - b = 0 and a - 0 = 0 (first member against each of the others)
            first = FT.NAMES.index(chunk[0])
            for other in chunk[1:]:
                r_ = [0.0] * 21
                r_[first], r_[FT.NAMES.index(other)] = 1.0, -1.0
                eq_rows.append(r_)
            r_ = [0.0] * 21
            r_[first] = 1.0
            eq_rows.append(r_)
        order = rng.permutation(len(lines))
        lines = [lines[i] for i in order]
    with open(path, "w") as fp:
        fp.write("\n".join(lines) + ("\n" if lines else ""))
    if want_rows:
        return lines, numpy.array(eq_rows, dtype=float).reshape(-1, 21)
    return lines


def _threshold(ctx):
    """Where the residual refusal sets in.  The relations are given as a user-written file (documented), so the oracle knows
    the very equations the filler stacks under the supplied values and computes the least-squares misfit per volume itself;
    a contradiction is planted in one or a few volume rows of a longer table, sized at 0.3x (must be accepted) or 5x (must be
    refused) the residual tolerance - never near 1x."""
    n_in = ctx.pick(54, 5400)
    tmp = tempfile.mkdtemp(prefix="c09t-")
    try:
        k = 3 * 10 ** 6
        for n in range(n_in):
            k += 1
            system = [s_ for s_ in laue.SYSTEMS if s_ != "triclinic"][n % 8]
            case_id = f"thr-{system}-{n}"
            if not ctx.mine(k, case_id):
                continue
            rng = ctx.rng("thr", system, n)
            rel = os.path.join(tmp, f"rel-{n}.txt")
            lines, R = write_relation_file(rel, system, rng, want_rows=True)
            nrows = [1, 4, 16][(n // 8) % 3]
            nbad = 1 if (n // 24) % 2 == 0 else max(1, nrows // 4)
            ratio = [5.0, 0.3, 5.0][n % 3]
            tol = [0.1, 0.1, 0.02, 1.0][(n // 3) % 4]
            S = FT.superset(rng, FT.minimal_sufficient(rng, system), 0.4)
            i = dependent_pair(system, S, rng)
            if i is None:
                ctx.count("generator_skips")
                continue
            field = FT.invariant_field(rng, system, nrows)
            # misfit of the stacked system [supplied values; relations] for a unit error in coordinate i (quadratic in the error)
            Astack = numpy.vstack([numpy.eye(21)[S], R])
            b1 = numpy.zeros(len(S) + len(R))
            b1[S.index(i)] = 1.0
            x1, *_ = numpy.linalg.lstsq(Astack, b1, rcond=None)
            r1 = float(((Astack @ x1 - b1) ** 2).sum())
            if not (r1 > 1e-6):
                ctx.count("generator_skips")
                continue
            delta = numpy.sqrt(ratio * tol / r1)
            rows = rng.choice(nrows, size=nbad, replace=False)
            f2 = field.copy()
            f2[rows, i] += delta * rng.choice([-1.0, 1.0], size=nbad)
            kw = {} if tol == 0.1 else {"residual_atol": tol}
            df = FT.make_frame(f2, S, rng, shuffle=True)
            st, res = call_fill(ctx, df, rel, case_id, "threshold", **kw)
            cls = f"threshold|misfit={ratio:g}x-tolerance|rows={nrows}|bad-rows={nbad}"
            ctx.evaluation(cls, (system, n), nontrivial=True, sample={"system": system, "volume_rows": nrows, "contradicting_rows": int(nbad), "squared_misfit_per_bad_row": ratio * tol,
                                                                      "residual_atol": tol, "outcome": st})
            data = {"system": system, "relations": lines, "supplied": [FT.NAMES[s_] for s_ in S], "residual_atol": tol, "table": df.to_dict(orient="list")}
            if st == "harness":
                continue
            if st == "error":
                ctx.violation(f"fill-error:{type(res).__name__}:{exc_site(res)}:threshold", f"{system}: {exc_text(res)}", case_id, data)
            elif ratio > 1 and st == "ok":
                ctx.violation(f"refusal-missing:residual:{'one' if nbad == 1 else 'few'}-bad-row(s)-of-{'many' if nrows > 1 else 'one'}",
                              f"{system}: {nbad} of {nrows} volume rows contradict the relations with a squared misfit of {ratio:g} x residual_atol={tol} "
                              f"but the table was accepted", case_id, data)
            elif ratio < 1 and st == "refused":
                ctx.violation("refused-acceptable:misfit-below-tolerance", f"{system}: squared misfit {ratio:g} x residual_atol={tol} in {nbad} of {nrows} rows "
                              f"but refused: {res}", case_id, data)
    finally:
        shutil.rmtree(tmp, ignore_errors=True)


def _environment(ctx):
    """Working-directory independence and relation files given by path (in-process and via the real CLI)."""
    n_in = ctx.pick(27, 2700)
    here = os.getcwd()
    tmp = tempfile.mkdtemp(prefix="c09-")
    try:
        k = 2 * 10 ** 6
        for n in range(n_in):
            k += 1
            system = laue.SYSTEMS[n % 9]
            case_id = f"env-{system}-{n}"
            if not ctx.mine(k, case_id):
                continue
            rng = ctx.rng("env", system, n)
            nrows = int(rng.integers(1, 6))
            field = FT.invariant_field(rng, system, nrows)
            S = FT.superset(rng, FT.minimal_sufficient(rng, system), 0.2)
            base = FT.make_frame(field, S)
            os.chdir(here)
            st0, r0 = call_fill(ctx, base.copy(deep=True), system, case_id, "clean-cwd")
            if st0 != "ok":
                continue          # reported by _refusals/_presentation
            m0 = FT.frame_moduli(r0)
            kind = ["dir-named-like-system", "dir-named-like-system+others", "relations-file-by-path", "relations-file-relative-path"][n % 4]
            wd = os.path.join(tmp, f"wd{n}")
            os.makedirs(wd)
            arg = system
            if kind.startswith("dir-named"):
                os.mkdir(os.path.join(wd, system))
                if kind.endswith("others"):
                    for other in rng.choice(laue.SYSTEMS, size=3, replace=False):
                        os.makedirs(os.path.join(wd, str(other)), exist_ok=True)
                    os.mkdir(os.path.join(wd, "constraints"))
            else:
                rel = os.path.join(wd, "my_relations.txt")
                lines = write_relation_file(rel, system, rng)
                arg = rel if kind == "relations-file-by-path" else "my_relations.txt"
                if system == "triclinic":
                    os.chdir(here)
                    shutil.rmtree(wd, ignore_errors=True)
                    continue
            os.chdir(wd)
            try:
                st, r = call_fill(ctx, base.copy(deep=True), arg, case_id, kind)
            finally:
                os.chdir(here)
            ctx.evaluation("env-" + kind, (system, n, kind), sample={"system": system, "cwd_class": kind, "system_argument": os.path.basename(str(arg))})
            data = {"system": system, "kind": kind, "supplied": [FT.NAMES[s] for s in S], "table": base.to_dict(orient="list")}
            if st == "harness":
                pass
            elif st != "ok":
                site = exc_site(r) if st == "error" else "refused"
                ctx.violation(f"environment:{kind.split('+')[0]}:{st}:{type(r).__name__}:{site}",
                              f"{system}: accepted in a clean directory, but with {kind}: {exc_text(r)}", case_id, data)
            else:
                m = FT.frame_moduli(r)
                if set(m) != set(m0) or any(numpy.abs(m[nm] - m0[nm]).max() > 1e-8 * max(1, numpy.abs(m0[nm]).max()) for nm in m0):
                    ctx.violation(f"environment:{kind.split('+')[0]}:different-result", f"{system}: result differs with {kind}", case_id, data)
            shutil.rmtree(wd, ignore_errors=True)

        # ---- the real command in real working directories ---------------------------------
        n_cli = ctx.pick(6, 60)
        for n in range(n_cli):
            k += 1
            system = laue.SYSTEMS[(n * 2 + 1) % 9]
            case_id = f"cli-{system}-{n}"
            if not ctx.mine(k, case_id):
                continue
            rng = ctx.rng("cli", system, n)
            nrows = int(rng.integers(2, 6))
            field = FT.invariant_field(rng, system, nrows)
            S = FT.minimal_sufficient(rng, system)
            txt = "title line\n%.8f %d %.4f\n" % (560.0, nrows, 100.5)
            txt += "V " + " ".join(FT.NAMES[i] for i in S) + "\n"
            for r in range(nrows):
                txt += "%.6f " % (600 - 10 * r) + " ".join("%.6f" % field[r, i] for i in S) + "\n"
            outs = {}
            for wdkind in ("clean", "dir-named-like-system"):
                wd = os.path.join(tmp, f"cli{n}-{wdkind}")
                os.makedirs(wd)
                if wdkind != "clean":
                    os.mkdir(os.path.join(wd, system))
                open(os.path.join(wd, "elast.dat"), "w").write(txt)
                env = dict(os.environ, PYTHONPATH=f"{repo_dir()}:{os.environ.get('PYTHONPATH', '')}")
                try:
                    p = subprocess.run([PY, "-c", "from cij.cli.cij import main; main()", "fill", "-s", system, "elast.dat"],
                                       cwd=wd, env=env, capture_output=True, text=True, timeout=300)
                except subprocess.TimeoutExpired:
                    ctx.inconc("cij fill subprocess timed out")
                    continue
                outs[wdkind] = (p.returncode, p.stdout, p.stderr[-1500:])
                ctx.evaluation("cli-" + wdkind, (system, n, wdkind), sample={"system": system, "cwd_class": wdkind, "exit": p.returncode})
                shutil.rmtree(wd, ignore_errors=True)
            if len(outs) == 2:
                (rc0, o0, e0), (rc1, o1, e1) = outs["clean"], outs["dir-named-like-system"]
                if rc0 != 0:
                    ctx.violation(f"cli:clean-run-failed", f"cij fill -s {system} failed in a clean directory: {e0}", case_id, {"system": system, "file": txt})
                elif rc1 != 0 or o1 != o0:
                    ctx.violation(f"cli:dir-named-like-system:{'exit' if rc1 else 'stdout'}",
                                  f"cij fill -s {system}: exit {rc1} / different stdout when ./{system}/ exists\n{e1}", case_id,
                                  {"system": system, "file": txt})
        # ---- command-line flags reach the filler: --ignore-rank / --ignore-residuals / --drop-atol -----------------
        from click.testing import CliRunner
        import cij.cli.fill
        for n in range(ctx.pick(18, 360)):
            k += 1
            system = laue.SYSTEMS[n % 9]
            case_id = f"cliflags-{system}-{n}"
            if not ctx.mine(k, case_id):
                continue
            rng = ctx.rng("cliflags", system, n)
            nrows = int(rng.integers(1, 5))
            field = FT.invariant_field(rng, system, nrows)
            kind = ["insufficient", "inconsistent"][n % 2]
            if kind == "insufficient":
                S = FT.insufficient_subset(rng, system)
                if not S or laue.sufficient(system, S):
                    continue
                f2 = field
                flag = "--ignore-rank"
            else:
                S = FT.superset(rng, FT.minimal_sufficient(rng, system), 0.5)
                i_dep = dependent_pair(system, S, rng)
                if i_dep is None:
                    continue
                f2 = field.copy()
                f2[:, i_dep] += 20.0
                flag = "--ignore-residuals"
            txt = "title\n560.0 %d 100.0\nV " % nrows + " ".join(FT.NAMES[i] for i in S) + "\n"
            for r in range(nrows):
                txt += "%.4f " % (600 - 10 * r) + " ".join("%.8f" % f2[r, i] for i in S) + "\n"
            path = os.path.join(tmp, f"flags{n}.dat")
            open(path, "w").write(txt)
            r_plain = CliRunner().invoke(cij.cli.fill.main, ["-s", system, path])
            r_flag = CliRunner().invoke(cij.cli.fill.main, ["-s", system, flag, path])
            ctx.evaluation(f"cli-flag|{flag}", (system, n, kind), sample={"system": system, "class": kind, "flag": flag,
                                                                          "exit_without_flag": r_plain.exit_code, "exit_with_flag": r_flag.exit_code})
            data = {"system": system, "file": txt, "flag": flag}
            if r_plain.exit_code == 0:
                ctx.violation(f"cli:refusal-missing:{kind}", f"cij fill -s {system} accepted a table that is {kind}", case_id, data)
            elif not isinstance(r_plain.exception, Warning):
                ctx.violation(f"cli:refusal-wrong-error:{type(r_plain.exception).__name__}", f"cij fill -s {system} on {kind} data failed with {r_plain.exception!r}", case_id, data)
            if r_flag.exit_code != 0:
                ctx.violation(f"cli:flag-does-not-switch-off-refusal:{flag}", f"cij fill -s {system} {flag} still fails on {kind} data: {r_flag.exception!r}", case_id, data)
    finally:
        os.chdir(here)
        shutil.rmtree(tmp, ignore_errors=True)
