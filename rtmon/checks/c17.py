"""C17 - input files round-trip: phonon data write/read, static table parse, fill output."""
import os
import shutil
import subprocess
import tempfile

import numpy

from ..oracles import fileio as F
from ..oracles import laue
from ..oracles import tensor as T
from ..workloads import filltables as FT
from ..trace import CallCounter
from ..runner import classify_exception, exc_site, exc_text, repo_dir, PY


def run(ctx):
    tmp = tempfile.mkdtemp(prefix="c17-")
    cc = CallCounter().start()
    try:
        _energy(ctx, tmp)
        _elast(ctx, tmp)
        _fill_cli(ctx, tmp)
        _fill_cli_noisy(ctx, tmp)
    finally:
        cc.stop()
        shutil.rmtree(tmp, ignore_errors=True)
    cc.report(ctx, ["qha_input.py:read_energy", "qha_input.py:write_energy", "qha_input.py:_read_volume_data",
                    "qha_input.py:_read_weights", "elast_dat.py:read_elast_data", "elast_dat.py:_find_modulus_key", "fill.py:main"])


def _vals(rng, shape, digits):
    """values of either sign, magnitudes from 1e-6 to 1e5, exactly representable at the written precision or not"""
    mag = 10 ** rng.uniform(-3, 5, size=shape)
    x = rng.choice([-1.0, 1.0], size=shape) * mag
    exact = rng.random(size=shape) < 0.3
    return numpy.where(exact, numpy.round(x, digits), x)


def _energy(ctx, tmp):
    from cij.io.traditional.qha_input import read_energy, write_energy
    from cij.io.traditional.models import QHAInputData, VolumeData, QPointData, QPointWeight
    for i in range(ctx.pick(120, 60000)):
        case_id = f"energy{i}"
        if not ctx.mine(i, case_id):
            continue
        rng = ctx.rng("energy", i)
        nv, nq = int(rng.integers(1, 13)), int(rng.integers(1, 11))
        na = int(rng.integers(1, 21))
        np_ = 3 * na
        nm = int(rng.integers(1, 9))
        P, V, E = _vals(rng, nv, 6), numpy.abs(_vals(rng, nv, 6)) + 1e-3, _vals(rng, nv, 6)
        coords = _vals(rng, (nq, 3), 4) / 10 ** rng.integers(0, 5)
        freqs = _vals(rng, (nv, nq, np_), 6)
        wts = numpy.abs(_vals(rng, nq, 6))
        wcoords = _vals(rng, (nq, 3), 6) / 10 ** rng.integers(0, 5)
        data = QHAInputData(nv, nq, np_, nm, na,
                            [QPointWeight(tuple(wcoords[j]), float(wts[j])) for j in range(nq)],
                            [VolumeData(float(P[a]), float(V[a]), float(E[a]),
                                        [QPointData(tuple(coords[j]), [float(x) for x in freqs[a, j]]) for j in range(nq)]) for a in range(nv)])
        # history: one file name is written and read again and again, often with data sets of identical shape
        # (the fixed-width writer then produces files of identical size)
        if i % 2:
            nv, nq, na = 3, 2, 2
            np_ = 6
            P, V, E = _vals(rng, nv, 6), numpy.abs(_vals(rng, nv, 6)) + 1e-3, _vals(rng, nv, 6)
            coords = _vals(rng, (nq, 3), 4) / 10 ** rng.integers(0, 5)
            freqs = _vals(rng, (nv, nq, np_), 6)
            wts = numpy.abs(_vals(rng, nq, 6))
            wcoords = _vals(rng, (nq, 3), 6) / 10 ** rng.integers(0, 5)
            data = QHAInputData(nv, nq, np_, nm, na,
                                [QPointWeight(tuple(wcoords[j]), float(wts[j])) for j in range(nq)],
                                [VolumeData(float(P[a]), float(V[a]), float(E[a]),
                                            [QPointData(tuple(coords[j]), [float(x) for x in freqs[a, j]]) for j in range(nq)]) for a in range(nv)])
            path = os.path.join(tmp, "input01-reused")
        else:
            path = os.path.join(tmp, f"in01-{i}")
        comment = ["QHA Input data", "made by test 7", "x=1 y=2"][i % 3]
        try:
            if i % 3 == 0:
                write_energy(path, data)
            else:
                write_energy(path, data, comment=comment)
            back = read_energy(path)
            own = F.read_input01(path)
        except Exception as exc:
            if classify_exception(exc) == "code":
                ctx.violation(f"energy-roundtrip-raises:{type(exc).__name__}:{exc_site(exc)}", f"nv={nv} nq={nq} np={np_}\n{exc_text(exc)}", case_id,
                              {"nv": nv, "nq": nq, "np": np_})
            else:
                ctx.harness_error("C17.energy", exc)
            continue
        finally:
            if os.path.exists(path) and not path.endswith("-reused"):
                os.unlink(path)
        ctx.evaluation("phonon-write-read" + ("|same-path-rewritten" if path.endswith("-reused") else ""), (nv, nq, np_, i), sample={"nv": nv, "nq": nq, "np": np_, "nm": nm, "na": na, "V[0]": V[0], "freq[0,0,0]": freqs[0, 0, 0]})

        def judge(tag, counts, vols, wl):
            if tuple(counts) != (nv, nq, np_, nm, na):
                ctx.violation(f"energy:{tag}:counts", f"counts {counts} != written {(nv, nq, np_, nm, na)}", case_id)
                return
            if len(vols) != nv or len(wl) != nq:
                ctx.violation(f"energy:{tag}:lengths", f"{len(vols)} volumes / {len(wl)} weights", case_id)
                return
            for a, (p, v, e, qps) in enumerate(vols):
                if abs(p - P[a]) > 5.001e-7 or abs(v - V[a]) > 5.001e-7 or abs(e - E[a]) > 5.001e-7:
                    ctx.violation(f"energy:{tag}:PVE", f"volume {a}: read ({p},{v},{e}) written ({P[a]},{V[a]},{E[a]})", case_id)
                    return
                if len(qps) != nq:
                    ctx.violation(f"energy:{tag}:q-count", f"volume {a}: {len(qps)} q-points", case_id)
                    return
                for j, (c, modes) in enumerate(qps):
                    if len(c) != 3 or numpy.abs(numpy.array(c) - coords[j]).max() > 5.001e-5:
                        ctx.violation(f"energy:{tag}:q-coordinates", f"volume {a} q {j}: {c} vs {coords[j]}", case_id)
                        return
                    if len(modes) != np_ or numpy.abs(numpy.array(modes) - freqs[a, j]).max() > 5.001e-7:
                        ctx.violation(f"energy:{tag}:frequencies", f"volume {a} q {j}: frequencies differ (order or value)", case_id)
                        return
            for j, (c, w) in enumerate(wl):
                if numpy.abs(numpy.array(c) - wcoords[j]).max() > 5.001e-7 or abs(w - wts[j]) > 5.001e-7:
                    ctx.violation(f"energy:{tag}:weights", f"weight {j}: {c},{w} vs {wcoords[j]},{wts[j]}", case_id)
                    return
        judge("reader", (back.nv, back.nq, back.np, back.nm, back.na),
              [(v.pressure, v.volume, v.energy, [(q.coord, q.modes) for q in v.q_points]) for v in back.volumes],
              [(w.coord, w.weight) for w in back.weights])
        judge("writer", own["counts"], own["volumes"], own["weights"])        # the file itself, read by the oracle's parser
        if path.endswith("-reused"):
            # the path just read is overwritten straight away (same second) by a data set of the same shape, hence - the writer being
            # fixed-width - usually a file of the same size; a quarter of the time the old modification time is kept as well (cp -p, rsync -t)
            st = os.stat(path)
            freqs = numpy.round(freqs * 1.01, 6)
            E = numpy.round(E - 0.125, 6)
            data = QHAInputData(nv, nq, np_, nm, na,
                                [QPointWeight(tuple(wcoords[j]), float(wts[j])) for j in range(nq)],
                                [VolumeData(float(P[a]), float(V[a]), float(E[a]),
                                            [QPointData(tuple(coords[j]), [float(x) for x in freqs[a, j]]) for j in range(nq)]) for a in range(nv)])
            try:
                if i % 3 == 0:
                    write_energy(path, data)
                else:
                    write_energy(path, data, comment=comment)
                if i % 4 == 1:
                    os.utime(path, ns=(st.st_atime_ns, st.st_mtime_ns))
                same_size = os.stat(path).st_size == st.st_size
                back = read_energy(path)
                own = F.read_input01(path)
            except Exception as exc:
                if classify_exception(exc) == "code":
                    ctx.violation(f"energy-roundtrip-raises:{type(exc).__name__}:{exc_site(exc)}:rewritten", exc_text(exc), case_id)
                else:
                    ctx.harness_error("C17.energy-rewrite", exc)
                continue
            ctx.evaluation("phonon-write-read|overwritten-with-same-shape" + ("|same-size" if same_size else "") + ("|mtime-kept" if i % 4 == 1 else ""), (nv, nq, np_, i, "rw"))
            judge("reader:after-overwrite", (back.nv, back.nq, back.np, back.nm, back.na),
                  [(v.pressure, v.volume, v.energy, [(q.coord, q.modes) for q in v.q_points]) for v in back.volumes],
                  [(w.coord, w.weight) for w in back.weights])
            judge("writer:after-overwrite", own["counts"], own["volumes"], own["weights"])
    # files written by the oracle's writer (other layouts) through the real reader
    for i in range(ctx.pick(60, 30000)):
        case_id = f"energy-own{i}"
        if not ctx.mine(10 ** 5 + i, case_id):
            continue
        rng = ctx.rng("energy-own", i)
        nv, nq, na = int(rng.integers(1, 13)), int(rng.integers(1, 11)), int(rng.integers(1, 21))
        np_ = 3 * na
        V = numpy.sort(rng.uniform(50, 2000, nv))[::-1]
        E = rng.uniform(-500, 10, nv)
        P = rng.uniform(-200, 3000, nv)
        freqs = rng.uniform(-1, 4000, size=(nv, nq, np_))
        qc = rng.uniform(-1, 1, size=(nq, 3))
        wts = 10 ** rng.uniform(-3, 3, nq)
        path = os.path.join(tmp, f"own01-{i}")
        fmt = ["%.10f", "%.17g", "%22.14e"][i % 3]
        F.write_input01(path, V, E, freqs, qc, wts, nm=int(rng.integers(1, 5)), na=na, pressures=P, float_fmt=fmt, blank_between=bool(i % 2))
        try:
            back = read_energy(path)
        except Exception as exc:
            if classify_exception(exc) == "code":
                ctx.violation(f"read_energy-raises:{type(exc).__name__}:{exc_site(exc)}", exc_text(exc), case_id)
            else:
                ctx.harness_error("C17.energy-own", exc)
            continue
        finally:
            os.unlink(path)
        ctx.evaluation("phonon-oracle-file-read", (nv, nq, np_, i, fmt))
        tol = 1e-9 if fmt == "%.10f" else 1e-12
        ok = (back.nv, back.nq, back.np, back.na) == (nv, nq, np_, na) and len(back.volumes) == nv and len(back.weights) == nq
        if ok:
            for a, v in enumerate(back.volumes):
                ok &= abs(v.volume - V[a]) <= tol * 2000 and abs(v.energy - E[a]) <= tol * 500 and abs(v.pressure - P[a]) <= tol * 3000
                ok &= len(v.q_points) == nq
                for j, q in enumerate(v.q_points):
                    ok &= bool(numpy.allclose(q.coord, qc[j], atol=tol, rtol=0) and len(q.modes) == np_
                               and numpy.allclose(q.modes, freqs[a, j], atol=tol * 4000, rtol=0))
            for j, w in enumerate(back.weights):
                ok &= bool(numpy.allclose(w.coord, qc[j], atol=tol, rtol=0) and abs(w.weight - wts[j]) <= tol * 1000)
        if not ok:
            ctx.violation("read_energy:values-differ", f"nv={nv} nq={nq} np={np_} fmt={fmt}: parsed data differ from the file", case_id)


SPELL = [lambda a, b: f"c{a}{b}", lambda a, b: f"C{a}{b}", lambda a, b: f"c_{a}{b}", lambda a, b: f"C_{a}{b}",
         lambda a, b: "c%d%d%d%d" % (T.VOIGT_TO_PAIR[a] + T.VOIGT_TO_PAIR[b]), lambda a, b: "%d%d%d%d" % (T.VOIGT_TO_PAIR[a] + T.VOIGT_TO_PAIR[b]),
         lambda a, b: f"c{b}{a}", lambda a, b: f"{a}{b}", lambda a, b: f"Cij{a}{b}"]


def _elast(ctx, tmp):
    from cij.io.traditional.elast_dat import read_elast_data
    for i in range(ctx.pick(150, 80000)):
        case_id = f"elast{i}"
        if not ctx.mine(2 * 10 ** 5 + i, case_id):
            continue
        rng = ctx.rng("elast", i)
        nv = int(rng.integers(1, 13))
        k = int(rng.integers(1, 22))
        comps = [T.VOIGT21[int(j)] for j in rng.permutation(21)[:k]]
        vals = rng.normal(100, 200, size=(k, nv))
        if i % 4 == 0:
            vals = numpy.round(vals)
        volumes = numpy.sort(rng.uniform(50, 2000, nv))[::-1]
        vref, mass = float(rng.uniform(50, 2000)), float(rng.uniform(10, 900))
        lattice = rng.uniform(0.5, 30, size=(nv, 3)) if i % 2 else None
        cols = [(SPELL[int(rng.integers(0, len(SPELL)))](a, b), vals[n]) for n, (a, b) in enumerate(comps)]
        path = os.path.join(tmp, f"in02-{i}")
        lat_head = [" lattice_a lattice_b lattice_c ", "a b c", "  lattice parameters"][i % 3]
        F.write_input02(path, vref, mass, volumes, cols, lattice=lattice, fmt=["%r", "%.12f", "%24.16e"][i % 3], lattice_header=lat_head,
                        header_v=["V", "v", "Volume"][i % 3])
        fmt_exact = i % 3 != 1
        try:
            d = read_elast_data(path)
        except Exception as exc:
            if classify_exception(exc) == "code":
                ctx.violation(f"read_elast_data-raises:{type(exc).__name__}:{exc_site(exc)}", f"columns {[c[0] for c in cols]}\n{exc_text(exc)}", case_id,
                              {"columns": [c[0] for c in cols]})
            else:
                ctx.harness_error("C17.elast", exc)
            continue
        finally:
            os.unlink(path)
        ctx.evaluation(f"static-table|lattice={'yes' if lattice is not None else 'no'}", (nv, tuple(c[0] for c in cols), i),
                       sample={"rows": nv, "columns": [c[0] for c in cols][:8], "lattice_block": lattice is not None})
        tol = 0.0 if fmt_exact else 1e-11

        def close(x, y):
            return abs(x - y) <= tol * max(1.0, abs(y))
        bad = None
        if not (close(d.vref, vref) and d.nv == nv and close(d.cellmass, mass)):
            bad = f"header ({d.vref},{d.nv},{d.cellmass}) vs ({vref},{nv},{mass})"
        elif len(d.volumes) != nv:
            bad = f"{len(d.volumes)} rows"
        else:
            for r, vol in enumerate(d.volumes):
                if not close(vol.volume, volumes[r]):
                    bad = f"row {r}: volume {vol.volume} vs {volumes[r]}"
                    break
                raw = [key for key in vol.static_elastic_modulus if not hasattr(key, "voigt")]
                if raw:
                    bad = f"row {r}: components keyed by the raw labels {raw[:4]} instead of canonical Voigt keys"
                    break
                got = {tuple(int(x) for x in key.voigt): val for key, val in vol.static_elastic_modulus.items()}
                if set(got) != set(comps):
                    bad = f"row {r}: keys {sorted(got)} vs {sorted(comps)}"
                    break
                for n, p in enumerate(comps):
                    if not close(got[p], vals[n, r]):
                        bad = f"row {r}: c{p} = {got[p]} vs {vals[n, r]} (column spelled {cols[n][0]})"
                        break
                if bad:
                    break
            if not bad:
                if lattice is None and len(d.lattice_parmeters) != 0:
                    bad = "lattice parameters invented"
                elif lattice is not None:
                    if len(d.lattice_parmeters) != nv or any(not close(x, y) for rr, row in zip(d.lattice_parmeters, lattice) for x, y in zip(rr, row)):
                        bad = "lattice parameters differ"
        if bad:
            ctx.violation("read_elast_data:" + bad.split(":")[0].split(" ")[0], bad, case_id, {"columns": [c[0] for c in cols]})


def _fill_cli_noisy(ctx, tmp):
    """Tables that list several components tied by one relation with slightly inconsistent values (numerical noise below the
    residual tolerance, or any size with --ignore-residuals).  The relations are given as a user-written file, so the oracle
    knows the stacked least-squares system and with it the symmetry-filled parse of the input exactly."""
    from click.testing import CliRunner
    import cij.cli.fill
    from .c09 import write_relation_file, dependent_pair
    n = ctx.pick(32, 4800)
    for i in range(n):
        system = [s_ for s_ in laue.SYSTEMS if s_ != "triclinic"][i % 8]
        case_id = f"fillnoisy-{system}-{i}"
        if not ctx.mine(4 * 10 ** 5 + i, case_id):
            continue
        rng = ctx.rng("fillnoisy", system, i)
        rel = os.path.join(tmp, f"relations-{i}.txt")
        lines, R = write_relation_file(rel, system, rng, want_rows=True)
        nv = int(rng.integers(1, 8))
        field = FT.invariant_field(rng, system, nv)
        S = FT.superset(rng, FT.minimal_sufficient(rng, system), 0.6)
        if dependent_pair(system, S, rng) is None:
            ctx.count("generator_skips")
            continue
        ignore = bool(i % 2)
        Astack = numpy.vstack([numpy.eye(21)[S], R])
        noise = rng.normal(size=(nv, len(S)))
        supplied = numpy.round(field[:, S] + noise, 6)
        # scale the noise so that the largest squared misfit over the rows is 0.3 x the default tolerance (accepted as it is),
        # or 30 x with --ignore-residuals
        for _ in range(3):
            b = numpy.vstack([supplied.T, numpy.zeros((len(R), nv))])
            x, *_ = numpy.linalg.lstsq(Astack, b, rcond=None)
            res = ((Astack @ x - b) ** 2).sum(axis=0).max()
            if not (res > 0):
                break
            target = (3.0 if ignore else 0.03)
            noise = noise * numpy.sqrt(target / res)
            supplied = numpy.round(field[:, S] + noise, 6)
        b = numpy.vstack([supplied.T, numpy.zeros((len(R), nv))])
        x, *_ = numpy.linalg.lstsq(Astack, b, rcond=None)          # (21, nv): the symmetry-filled parse of the input
        res = ((Astack @ x - b) ** 2).sum(axis=0).max()
        if not ignore and not (0.003 < res < 0.06):
            ctx.count("generator_skips")
            continue
        volumes = numpy.round(numpy.sort(rng.uniform(100, 900, nv))[::-1], 4)
        path = os.path.join(tmp, f"fillnoisy-{i}.dat")
        cols = [("c%d%d" % T.VOIGT21[s_], supplied[:, k]) for k, s_ in enumerate(S)]
        F.write_input02(path, 500.0, 100.0, volumes, cols, lattice=None, fmt="%.6f", title=f"{system}, redundant table with noise")
        args = ["-s", rel, path] + (["--ignore-residuals"] if ignore else [])
        r_ = CliRunner().invoke(cij.cli.fill.main, args)
        ctx.evaluation(f"fill-command|redundant-noisy-table|{'--ignore-residuals' if ignore else 'below-tolerance'}", (system, i),
                       sample={"system": system, "rows": nv, "supplied": [c[0] for c in cols], "largest_squared_misfit": float(res)})
        data = {"system": system, "relations": lines, "file": open(path).read(), "args": args[2:]}
        if r_.exit_code != 0:
            err = "".join(__import__("traceback").format_exception(r_.exception)) if r_.exception else r_.output
            ctx.violation(f"fill-command:fails:noisy-table:{'ignore-residuals' if ignore else 'below-tolerance'}", f"cij fill exit {r_.exit_code}\n{err[-1000:]}", case_id, data)
            continue
        try:
            own = F.read_input02_text(r_.stdout)
        except Exception as exc:
            ctx.violation(f"fill-command:output-not-a-valid-table:{type(exc).__name__}", exc_text(exc), case_id, data)
            continue
        bad = None
        for n_, p_ in enumerate(T.VOIGT21):
            want = x[n_]
            got = own["components"].get(p_)
            if got is None:
                if numpy.abs(want).max() > 1e-4:
                    bad = f"c{p_[0]}{p_[1]} missing (expected up to {numpy.abs(want).max():.4g})"
                    break
            elif numpy.abs(numpy.array(got) - want).max() > 2e-5:
                j = int(numpy.argmax(numpy.abs(numpy.array(got) - want)))
                bad = (f"c{p_[0]}{p_[1]} at row {j}: printed {got[j]} but the least-squares filling of the input gives {want[j]:.6f}"
                       + (f" (the input lists {supplied[j, S.index(n_)]:.6f})" if n_ in S else " (generated component)"))
                break
        ctx.count("fill_roundtrips_judged")
        if bad:
            ctx.violation(f"fill-command:parse-differs:noisy-redundant-table:{'listed' if 'input lists' in bad else 'generated' if 'generated' in bad else 'missing'}",
                          f"{system}: {bad}", case_id, data)


def _fill_cli(ctx, tmp):
    from click.testing import CliRunner
    import cij.cli.fill
    from cij.io.traditional.elast_dat import read_elast_data
    n = ctx.pick(45, 9000)
    for i in range(n):
        system = laue.SYSTEMS[i % 9]
        case_id = f"fillcli-{system}-{i}"
        if not ctx.mine(3 * 10 ** 5 + i, case_id):
            continue
        rng = ctx.rng("fillcli", system, i)
        nv = int(rng.integers(1, 10))
        datol = None
        if i % 5 == 2 and nv >= 2:
            # the documented --drop-atol option with a component that runs from 0 at one end to 2..30 GPa at the other: it exceeds the
            # tolerance somewhere, so it stays in the table, every entry as the symmetry filling gives it
            field = FT.invariant_field(rng, system, nv, one_signed_with_zero=True)
            datol = [0.5, 1.5][(i // 5) % 2]
        else:
            field = FT.invariant_field(rng, system, nv, integer=(i % 5 == 0))
        S = FT.superset(rng, FT.minimal_sufficient(rng, system), 0.2)
        S = [S[int(j)] for j in rng.permutation(len(S))]
        volumes = numpy.round(numpy.sort(rng.uniform(100, 900, nv))[::-1], int(rng.integers(2, 6)))
        row_order = ["largest-volume-first", "largest-volume-first", "smallest-volume-first", "unordered"][(i // 9) % 4]
        if row_order == "smallest-volume-first":
            volumes = volumes[::-1].copy()
        elif row_order == "unordered":
            volumes = volumes[rng.permutation(nv)]
        lattice = numpy.round(rng.uniform(1, 9, size=(nv, 3)), 12) if i % 2 else None
        vref, mass = round(float(rng.uniform(100, 900)), 5), round(float(rng.uniform(20, 400)), 3)
        cols = [(("C%d%d" if i % 3 == 1 else "c%d%d") % T.VOIGT21[s], field[:, s]) for s in S]
        path = os.path.join(tmp, f"fill-{i}.dat")
        fmt = "%.0f" if i % 5 == 0 else ["%r", "%.6f", "%.3f"][i % 3]
        text = F.write_input02(path, vref, mass, volumes, [(nm, numpy.array([float(fmt % float(x)) for x in col])) for nm, col in cols],
                               lattice=lattice, fmt="%r" if fmt == "%r" else fmt, title=f"  {system} test crystal, a(b)c = 1 2 3")
        if fmt != "%r":   # volumes/header written with the same format: re-read what was actually printed
            pass
        inp = F.read_input02_text(open(path).read())
        via_subprocess = (i % 15 == 7)
        try:
            if via_subprocess:
                env = dict(os.environ, PYTHONPATH=f"{repo_dir()}:{os.environ.get('PYTHONPATH', '')}")
                p = subprocess.run([PY, "-c", "from cij.cli.cij import main; main()", "fill", "-s", system, path] + ([] if datol is None else ["--drop-atol", repr(datol)]),
                                   capture_output=True, text=True,
                                   env=env, timeout=300, cwd=tmp)
                rc, out, err = p.returncode, p.stdout, p.stderr[-1500:]
            else:
                res = CliRunner().invoke(cij.cli.fill.main, ["-s", system, path] + ([] if datol is None else ["--drop-atol", repr(datol)]))
                rc, out = res.exit_code, res.output
                err = "".join(__import__("traceback").format_exception(res.exception)) if res.exception else ""
        except Exception as exc:
            ctx.harness_error("C17.fill_cli", exc)
            continue
        ctx.evaluation(f"fill-command|{system}|rows:{row_order}" + ("" if datol is None else "|--drop-atol"), (system, i, tuple(S)), sample={"system": system, "rows": nv, "supplied": [c[0] for c in cols],
                                                                                "lattice_block": lattice is not None, "via": "subprocess" if via_subprocess else "CliRunner"})
        data = {"system": system, "file": open(path).read()}
        if rc != 0:
            ctx.violation(f"fill-command:fails:{system if system == 'triclinic' else 'any'}", f"cij fill -s {system} exit {rc}\n{err[-1200:]}", case_id, data)
            continue
        in_lines = open(path).read().splitlines()
        out_lines = out.splitlines()
        if out_lines[:2] != in_lines[:2]:
            ctx.violation("fill-command:header-lines-changed", f"first two lines differ: {out_lines[:2]} vs {in_lines[:2]}", case_id, data)
            continue
        # the output must itself be a valid static table
        opath = path + ".out"
        open(opath, "w").write(out)
        try:
            back = read_elast_data(opath)
            own = F.read_input02_text(out)
        except Exception as exc:
            ctx.violation(f"fill-command:output-not-a-valid-table:{type(exc).__name__}", f"{system}: output cannot be parsed back\n{exc_text(exc)}\n{out[:600]}", case_id, data)
            continue
        finally:
            os.unlink(opath)
        # expected: symmetry-filled parse of the input = invariant tensor through the supplied (printed) values
        supplied = numpy.array([inp["components"][T.VOIGT21[s]] for s in S]).T            # (nv, |S|)
        B = laue.invariant_basis(system)
        coef, *_ = numpy.linalg.lstsq(B[S, :], supplied.T, rcond=None)
        full = (B @ coef).T                                                               # (nv, 21)
        resid = numpy.abs(full[:, S] - supplied).max()
        if resid > 1e-2:
            ctx.count("fillcli_inconsistent_after_rounding")     # %.0f/%.3f rounding broke the consistency; not judged
            continue
        scale = max(1.0, numpy.abs(full).max())
        bad = None
        for tag, comps, vols, lat in (("real-reader", {tuple(int(x) for x in k.voigt): [v.static_elastic_modulus[k] for v in back.volumes]
                                                       for k in back.volumes[0].static_elastic_modulus}, [v.volume for v in back.volumes], back.lattice_parmeters),
                                      ("oracle-reader", own["components"], own["volumes"], own["lattice"])):
            if len(vols) != nv or numpy.abs(numpy.array(vols) - numpy.array(inp["volumes"])).max() > 5.1e-7 * max(1, max(inp["volumes"])):
                bad = f"{tag}: volumes {vols[:3]} vs {inp['volumes'][:3]}"
                break
            for n_, p in enumerate(T.VOIGT21):
                want = full[:, n_]
                if p in comps:
                    if numpy.abs(numpy.array(comps[p]) - want).max() > 1e-5 * scale + resid * 3:
                        bad = f"{tag}: c{p} = {comps[p][:3]} vs filled {want[:3]}"
                        break
                elif numpy.abs(want).max() > max(1e-5 * scale + resid * 3, (datol or 0.0) * 1.0001):
                    bad = f"{tag}: c{p} missing from the output (expected up to {numpy.abs(want).max():.4g})"
                    break
            if bad:
                break
            if (lattice is None) != (lat is None or len(lat) == 0):
                bad = f"{tag}: lattice block {'lost' if lattice is not None else 'invented'}"
                break
            if lattice is not None and (numpy.shape(lat) != numpy.shape(inp["lattice"]) or
                                        numpy.abs(numpy.array(lat, float) - numpy.array(inp["lattice"], float)).max() > 1e-9):
                bad = f"{tag}: lattice block changed (row {numpy.array(lat, float)[0]} vs {numpy.array(inp['lattice'], float)[0]})"
                break
        if bad:
            ctx.violation("fill-command:parse-differs:" + bad.split(":")[0], f"{system}: {bad}", case_id, data)
            continue
        # everything after the table is passed through byte for byte
        tail_in = in_lines[3 + nv:]
        tail_out = out_lines[3 + nv:]
        if tail_in != tail_out:
            ctx.violation("fill-command:remainder-changed", f"{system}: lines after the table changed: {tail_out[:2]} vs {tail_in[:2]}", case_id, data)
        ctx.count("fill_roundtrips_judged")
    ctx.require("fill_roundtrips_judged", 5)
