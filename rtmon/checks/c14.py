"""C14 - deterministic and isolated: hash seed, working directory, process history."""
import copy
import hashlib
import json
import os
import shutil
import subprocess

import numpy

from ..canon_dump import digest, property_names, read_property
from ..e2e import E2E
from ..oracles import laue
from ..workloads import files as WF
from ..workloads import filltables as FT
from ..trace import CallCounter, hook_lazy
from ..runner import classify_exception, exc_site, exc_text, repo_dir, PY, VERIF


def child_env(seed):
    env = dict(os.environ)
    env["PYTHONPATH"] = f"{repo_dir()}:{VERIF}"
    env["PYTHONHASHSEED"] = str(seed)
    env["PYTHONDONTWRITEBYTECODE"] = "1"
    env["NUMBA_NUM_THREADS"] = "1"
    return env


def make_dataset(ctx, e2e, rng, name, i, big=False):
    system = laue.SYSTEMS[i % 9]
    ds = WF.gen_dataset(rng, system=system, nq=int(rng.integers(2, 5)), natoms=int(rng.integers(1, 4)), lattice=bool(i % 2),
                        energy_class="noncubic" if i % 4 < 2 else "bm3", nv=int(rng.integers(7, 13)))
    cfg = WF.gen_settings(rng, ds, interpolator=WF.INTERPOLATORS[i % 7] if i % 3 else "lsq_poly", nt=int(rng.integers(2, 6)), ntv=int(rng.integers(8, 21)))
    wd = e2e.workdir(name)
    WF.write_dataset(ds, cfg, wd)
    p_lo, p_hi, _ = WF.probe_pressure_range(ds, cfg, wd)
    if not (p_hi - p_lo > 1.0):
        return None
    WF.place_pressures(rng, cfg, p_lo, p_hi)
    cfg["output"] = {"pressure_base": ["cij", "cij_t", "bm_VRH", "G_VRH", "v", "vs", "vp", "bm_R", "G_R"], "volume_base": ["p", "cij", "bm_V"]}
    if i % 2:
        # entries the schema lets through and the program has no use for, spelled like real keywords in another letter case: whatever
        # is done with them must not depend on the order in which a merged dictionary happens to be walked
        qs_ = cfg["qha"]["settings"]
        qs_["dt"] = float(qs_["DT"]) / 2
        qs_["nt"] = int(qs_["NT"]) + 3
        qs_["Delta_P"] = float(qs_["DELTA_P"]) * 0.5
        cfg["elast"]["settings"]["mode_gamma"]["Order"] = int(cfg["elast"]["settings"]["mode_gamma"]["order"]) + 1
    path = WF.write_dataset(ds, cfg, wd)
    return ds, cfg, wd, path


def canonical(ctx, wd, path, seed=0, tag=""):
    """Values and files from a fresh process."""
    aux = wd.rstrip(os.sep) + "-aux" + tag
    os.makedirs(aux, exist_ok=True)
    out = os.path.join(aux, "canon.json")
    outdir = os.path.join(aux, "canon-out")
    p = subprocess.run([PY, "-m", "rtmon.canon_dump", path, out, outdir], env=child_env(seed), capture_output=True, text=True, timeout=900, cwd=wd)
    if p.returncode != 0:
        return None, p.stderr[-1500:]
    return json.load(open(out)), None


def run(ctx):
    cc = CallCounter().start()
    here = os.getcwd()
    try:
        with E2E(ctx, nonshear=False, tasks=False) as e2e:
            _subprocess_histories(ctx, e2e)
            _inprocess_histories(ctx, e2e)
            _idempotence(ctx, e2e)
    finally:
        os.chdir(here)
        cc.stop()
    cc.report(ctx, ["calculator.py:Calculator.write_output", "tasks.py:PhononContributionTaskList.calculate",
                    "config.py:update_config", "calculator.py:Calculator._calculate_compliances", "fill.py:fill_cij"])
    ctx.require("subprocess_runs_compared", 4)
    ctx.require("history_steps_compared", 40)


HOSTILE_ENTRIES = ["cubic", "trigonal7", "orthorhombic", "constraints", "default", "settings.yaml", "input01", "elast.dat", "writer_rules.yml",
                   "cij", "qha", "results", "output", "schema", "config.schema.json", "c11s_tp_gpa.txt.bak", "__pycache__"]


def _subprocess_histories(ctx, e2e):
    nds = ctx.pick(2, 24)
    seeds_all = [0, 1, 2, 3, 7, 42, 12345, 99991, 31337, 2 ** 31 - 1]
    for i in range(nds):
        case_id = f"sub{i}"
        seeds = seeds_all[: ctx.pick(3, 8)]
        dirs = ["clean", "unrelated-files", "unrelated-dirs"] if ctx.quick else ["clean", "unrelated-files", "unrelated-dirs", "both", "readonly-extra"]
        combos = [(s_, d_) for s_ in seeds for d_ in dirs]
        # (seed, directory) combinations are spread over the shards; every shard that has one builds the data set itself
        mine = [c for n_, c in enumerate(combos) if (ctx.only is None and (i * len(combos) + n_) % ctx.nshards == ctx.shard) or ctx.only == case_id]
        if not mine:
            continue
        rng = ctx.rng("sub", i)
        try:
            made = make_dataset(ctx, e2e, rng, case_id, i)
        except Exception as exc:
            ctx.inconc(f"data set preparation failed: {exc!r}")
            continue
        if made is None:
            continue
        ds, cfg, wd, path = made
        canon, err = canonical(ctx, wd, path)
        if canon is None:
            ctx.violation("fresh-process-run-fails", f"canonical run failed: {err}", case_id, {"config": cfg})
            continue
        ref_files = canon["files"]
        for seed, dk in mine:
            if True:
                rd = os.path.join(wd.rstrip(os.sep) + "-aux", f"run-{seed}-{dk}")
                os.makedirs(rd)
                planted = set()
                if dk != "clean":
                    # always plant an entry named like the very crystal system of this run (packaged data must not be shadowed)
                    for nm in [ds.system, os.path.basename(cfg["qha"]["input"]), os.path.basename(cfg["elast"]["input"])] + \
                            [str(x) for x in rng.choice(HOSTILE_ENTRIES, size=5, replace=False) if str(x) not in (ds.system, "input01")]:
                        as_dir = dk == "unrelated-dirs" or (dk in ("both", "readonly-extra") and rng.random() < 0.5)
                        if as_dir:
                            os.makedirs(os.path.join(rd, nm), exist_ok=True)
                            open(os.path.join(rd, nm, "junk.txt"), "w").write("c11 = c22 = 7\n")
                        else:
                            open(os.path.join(rd, nm), "w").write("c11 = 3 * c22\nqha: {settings: {NT: 1}}\n")
                        planted.add(nm)
                audit = os.path.join(wd.rstrip(os.sep) + "-aux", f"audit-{seed}-{dk}.json")     # outside the data and run directories
                p = subprocess.run([PY, "-m", "rtmon.cli_shim", audit, "run", path], env=child_env(seed), capture_output=True, text=True,
                                   timeout=900, cwd=rd)
                ctx.evaluation(f"cij-run|seed|{dk}", (i, seed, dk), nontrivial=(seed != 0 or dk != "clean"),
                               sample={"PYTHONHASHSEED": seed, "cwd_class": dk, "planted": sorted(planted), "exit": p.returncode})
                data = {"config": cfg, "seed": seed, "cwd": dk, "planted": sorted(planted)}
                if p.returncode != 0:
                    ctx.violation(f"cij-run-fails:{dk}", f"seed {seed}, cwd {dk}: exit {p.returncode}\n{p.stderr[-1200:]}", case_id, data)
                    continue
                got = {f: hashlib.sha256(open(os.path.join(rd, f), "rb").read()).hexdigest()[:20] for f in os.listdir(rd)
                       if os.path.isfile(os.path.join(rd, f)) and f not in planted}
                if set(got) != set(ref_files):
                    ctx.violation(f"output-file-set-differs:{dk}", f"seed {seed}, cwd {dk}: files {sorted(set(got) ^ set(ref_files))[:5]} differ from the canonical run",
                                  case_id, data)
                    continue
                diff = [f for f in got if got[f] != ref_files[f]]
                if diff:
                    why = "hash-seed" if dk == "clean" else "working-directory"
                    ctx.violation(f"output-bytes-differ:{why}", f"seed {seed}, cwd {dk}: {len(diff)} files differ byte-wise from the canonical run, e.g. {diff[:3]}",
                                  case_id, data)
                else:
                    ctx.count("subprocess_runs_compared")
                # audit: below the run directory and the data directory only the named files are touched
                try:
                    events = json.load(open(audit))
                except Exception:
                    ctx.inconc("audit log missing")
                    continue
                ctx.count("audit_open_events", len(events))
                allowed_read = {os.path.abspath(path), os.path.join(wd, cfg["qha"]["input"]), os.path.join(wd, cfg["elast"]["input"])}
                for fpath, mode in events:
                    writing = any(ch in mode for ch in "wax+")
                    if fpath.startswith(rd + os.sep):
                        rel = os.path.relpath(fpath, rd)
                        if not writing:
                            if rel.split(os.sep)[0] in planted:
                                ctx.violation("reads-unrelated-entry-in-cwd", f"the run opened ./{rel} (an unrelated entry of the working directory)", case_id, data)
                        elif rel not in ref_files:
                            ctx.violation("writes-undocumented-file", f"the run wrote ./{rel}, not one of the documented output names", case_id, data)
                    elif fpath.startswith(wd + os.sep) and fpath not in allowed_read:
                        ctx.violation("reads-unnamed-file-in-data-directory", f"the run opened {os.path.relpath(fpath, wd)} which the settings do not name", case_id, data)
                shutil.rmtree(rd, ignore_errors=True)


OPS = ["construct-A", "construct-B", "read-A", "read-B", "reread-A", "reread-B", "write-A", "write-B", "construct-C", "fill-table", "read-C",
       "override-A", "override-B", "construct-D", "read-D", "write-D", "construct-D", "read-D"]
VARIANTS = ["volume_ratio", "order", "T_MIN", "interpolator", "eos_order", "NT", "DT", "P_MIN"]


def variant_settings(rng, ds, cfg, what):
    """The settings of data set A with ONE entry changed (D = same input files, nearly the same calculation)."""
    c = copy.deepcopy(cfg)
    qs, mg = c["qha"]["settings"], c["elast"]["settings"]["mode_gamma"]
    if what == "volume_ratio":
        qs["volume_ratio"] = {1.05: 1.2, 1.2: 1.4, 1.4: 1.5}.get(qs["volume_ratio"], qs["volume_ratio"] + 0.1)
    elif what == "order":
        others = [o for o in WF.admissible_orders(mg["interpolator"], ds.nv) if o != mg["order"]]
        if not others:
            return variant_settings(rng, ds, cfg, "volume_ratio")
        mg["order"] = int(rng.choice(others))
    elif what == "interpolator":
        cands = [(m, o) for m in WF.INTERPOLATORS if m != mg["interpolator"] for o in WF.admissible_orders(m, ds.nv) if o == mg["order"]] or \
                [(m, WF.admissible_orders(m, ds.nv)[0]) for m in WF.INTERPOLATORS if m != mg["interpolator"] and WF.admissible_orders(m, ds.nv)]
        mg["interpolator"], mg["order"] = cands[int(rng.integers(0, len(cands)))]
        mg["order"] = int(mg["order"])
    elif what == "eos_order":
        qs["order"] = {3: 4, 4: 5, 5: 4, 2: 3}.get(int(qs["order"]), 4)
    elif what == "T_MIN":
        qs["T_MIN"] = float(qs["T_MIN"]) + float(qs["DT"]) / 2
    elif what == "NT":
        qs["NT"] = int(qs["NT"]) + 1
    elif what == "DT":
        qs["DT"] = float(qs["DT"]) * 0.5
        qs["DT_SAMPLE"] = qs["DT"]
    elif what == "P_MIN":
        qs["P_MIN"] = float(qs["P_MIN"]) + 0.25 * float(qs["DELTA_P"])
        qs["DELTA_P"] = float(qs["DELTA_P"]) * 0.97
        qs["DELTA_P_SAMPLE"] = qs["DELTA_P"]
    return c


def _inprocess_histories(ctx, e2e):
    import cij.core.calculator as cc
    import cij.io.output.results_writer as rw
    import cij.util.units as cu
    import qha.settings
    from cij.util.fill import fill_cij
    nh = ctx.pick(20, 1200)
    group = ctx.pick(4, 20)               # histories sharing one pair of data sets (canonical runs are the expensive part)
    evaluation_orders = set()

    def lazy_obs(obj, name, value):
        order.append(name)
    import cij.core.phonon_contribution.nonshear as ns
    undo = [hook_lazy(ns.LongitudinalElasticModulusPhononContribution, nm, lazy_obs) for nm in ("zero_point_contribution", "thermal_contribution", "Q1", "Q2")]
    try:
        for g in range((nh + group - 1) // group):
            case_id = f"hist-group{g}"
            if not ctx.mine(10 ** 6 + g, case_id):
                continue
            rng = ctx.rng("hist", g)
            try:
                A = make_dataset(ctx, e2e, rng, case_id + "-A", 2 * g)
                B = make_dataset(ctx, e2e, rng, case_id + "-B", 2 * g + 1)
            except Exception as exc:
                ctx.inconc(f"data set preparation failed: {exc!r}")
                continue
            if A is None or B is None:
                continue
            canon = {}
            bad = False
            for nm, D in (("A", A), ("B", B)):
                c, err = canonical(ctx, D[2], D[3], seed=int(rng.integers(0, 1000)))
                if c is None:
                    ctx.violation("fresh-process-run-fails", f"canonical run failed: {err}", case_id, {"config": D[1]})
                    bad = True
                canon[nm] = c
            if bad:
                continue
            canon["C"] = canon["A"]
            paths = {"A": A[3], "B": B[3], "C": A[3]}
            # D: the input files of A with one setting changed - whatever an earlier calculation on the same files left behind
            # (interpolated modes, grids, fits) must not leak into it
            what = VARIANTS[g % len(VARIANTS)]
            cfgD = variant_settings(rng, A[0], A[1], what)
            paths["D"] = WF.write_dataset(A[0], cfgD, A[2], settings_name="settings-variant.yaml")
            canon["D"], errD = canonical(ctx, A[2], paths["D"], seed=int(rng.integers(0, 1000)), tag="-variant")
            if canon["D"] is None:
                if "PRESSURE" in (errD or "").upper():
                    ctx.count("variant_out_of_pressure_range")
                else:
                    ctx.violation("fresh-process-run-fails:variant", f"canonical run of the {what} variant failed: {errD}", case_id, {"config": cfgD})
            else:
                ctx.count("variant_settings:" + what)
            for h in range(group):
                hid = f"{case_id}-h{h}"
                e2e.current["id"] = hid
                rng_h = ctx.rng("hist-ops", g, h)
                nops = int(rng_h.integers(6, 16))
                ops = ["construct-A" if rng_h.random() < 0.5 else "construct-B"]
                ops += [str(rng_h.choice(OPS)) for _ in range(nops)]
                if canon["D"] is None:
                    ops = [o for o in ops if not o.endswith("-D")]
                elif h % 2 == 0:          # every second history: A first, then the variant straight away
                    ops = ["construct-A", "read-A", "construct-D", "read-D", "write-D"] + ops[1:]
                calcs = {}
                order = []
                state0 = (copy.deepcopy(rw.DEFAULT_WRITER_RULES), len(cu.units._units), copy.deepcopy(qha.settings.DEFAULT_SETTINGS))
                trace = []
                ok = True
                for op in ops:
                    kind, who = op.split("-") if "-" in op and not op.startswith("fill") else (op, None)
                    try:
                        with numpy.errstate(all="ignore"):
                            if kind == "construct":
                                calcs[who] = cc.Calculator(paths[who])
                                trace.append(op)
                            elif kind in ("read", "reread") and who in calcs:
                                names = property_names(calcs[who])
                                pick = [names[int(j)] for j in rng_h.permutation(len(names))[: int(rng_h.integers(1, 8))]]
                                for nm in pick:
                                    try:
                                        val = read_property(calcs[who], nm)
                                    except AttributeError:
                                        continue
                                    d1 = digest(val)
                                    want = canon[who]["properties"].get(nm)
                                    ctx.count("history_steps_compared")
                                    if want not in (None, "unavailable") and d1 != want:
                                        ctx.violation(f"history-dependent-value:{nm.split(':')[0]}:{'modulus' if nm.split(':')[1][0] in 'cs' and nm.split(':')[1][1].isdigit() else nm.split(':')[1]}",
                                                      f"{nm} of calculator {who} after history {trace} differs from the value in a fresh process", hid, {"history": trace + [op]})
                                        ok = False
                                    if kind == "reread":
                                        d2 = digest(read_property(calcs[who], nm))
                                        if d2 != d1:
                                            ctx.violation("second-read-differs", f"{nm} read twice gives different arrays", hid, {"history": trace + [op]})
                                trace.append(f"{op}({len(pick)})")
                            elif kind == "write" and who in calcs:
                                od = os.path.join(e2e.tmp, "hist-out")
                                shutil.rmtree(od, ignore_errors=True)
                                os.makedirs(od)
                                os.chdir(od)
                                calcs[who].write_output()
                                if rng_h.random() < 0.5:
                                    calcs[who].write_output()
                                    trace.append(op + "x2")
                                else:
                                    trace.append(op)
                                os.chdir(e2e.tmp)
                                got = {f: hashlib.sha256(open(os.path.join(od, f), "rb").read()).hexdigest()[:20] for f in os.listdir(od)}
                                ctx.count("history_steps_compared")
                                if got != canon[who]["files"]:
                                    diff = sorted(set(got) ^ set(canon[who]["files"]))[:3] or [f for f in got if got[f] != canon[who]["files"][f]][:3]
                                    ctx.violation("history-dependent-output-files", f"files of calculator {who} after history {trace} differ from a fresh process: {diff}",
                                                  hid, {"history": trace})
                                    ok = False
                            elif kind == "override" and who in calcs:
                                # documented dict-form output entries with unit / file-name overrides, written to a throw-away directory
                                od = os.path.join(e2e.tmp, "hist-override")
                                shutil.rmtree(od, ignore_errors=True)
                                os.makedirs(od)
                                os.chdir(od)
                                calcs[who].pressure_base.write_variables([{"keyword": "bm_VRH", "unit": "kbar", "fname": "k.txt"}, {"keyword": "cij", "unit": "Pa"},
                                                                          {"keyword": "v", "unit": "bohr^3"}])
                                calcs[who].volume_base.write_variables([{"keyword": "p", "unit": "kbar", "fname": "p.txt"}, {"keyword": "bm_V", "fname": "b.txt"}])
                                os.chdir(e2e.tmp)
                                trace.append(op)
                            elif kind == "fill":
                                system = laue.SYSTEMS[int(rng_h.integers(0, 9))]
                                field = FT.invariant_field(rng_h, system, 3)
                                S = FT.minimal_sufficient(rng_h, system)
                                r1 = fill_cij(FT.make_frame(field, S), system)
                                r2 = fill_cij(r1.copy(), system)
                                ctx.count("history_steps_compared")
                                if list(r1.columns) != list(r2.columns) or not numpy.allclose(r1.to_numpy(), r2.to_numpy(), rtol=1e-12, atol=1e-9):
                                    ctx.violation("fill-not-idempotent", f"{system}: filling an already filled table changes it", hid)
                                trace.append(op)
                    except Exception as exc:
                        os.chdir(e2e.tmp)
                        if classify_exception(exc) == "code":
                            ctx.violation(f"history-raises:{kind}:{type(exc).__name__}:{exc_site(exc)}", f"after {trace}: {op} raised\n{exc_text(exc)}", hid, {"history": trace + [op]})
                        else:
                            ctx.harness_error("C14.history", exc)
                        ok = False
                        break
                state1 = (rw.DEFAULT_WRITER_RULES, len(cu.units._units), qha.settings.DEFAULT_SETTINGS)
                if state1[0] != state0[0]:
                    ctx.violation("module-state:writer-rules-mutated", f"DEFAULT_WRITER_RULES changed during history {trace}", hid)
                if state1[2] != state0[2]:
                    ctx.violation("module-state:qha-default-settings-mutated", f"qha DEFAULT_SETTINGS changed during history {trace}", hid)
                evaluation_orders.add(tuple(order))
                ctx.evaluation("in-process-history", (g, h, tuple(ops)), nontrivial=len(trace) >= 2,
                               sample={"operations": trace, "lazy_evaluations_observed": len(order)})
    finally:
        for u in undo:
            u()
    ctx.note("distinct_lazy_evaluation_orders", len(evaluation_orders))


def _idempotence(ctx, e2e):
    from cij.util.fill import fill_cij
    from cij.io.traditional.elast_dat import apply_symetry_on_elast_data, ElastData, ElastVolumeData
    from cij.util import c_
    from ..oracles import tensor as T
    n = ctx.pick(45, 1800)
    for i in range(n):
        system = laue.SYSTEMS[i % 9]
        case_id = f"idem-{system}-{i}"
        if not ctx.mine(2 * 10 ** 6 + i, case_id):
            continue
        rng = ctx.rng("idem", system, i)
        nrows = int(rng.integers(1, 7))
        field = FT.invariant_field(rng, system, nrows)
        S = FT.superset(rng, FT.minimal_sufficient(rng, system), 0.3)
        try:
            if i % 6 == 5 and system != "triclinic":
                # a redundant table that is consistent only within the residual tolerance: the first filling is a least-squares
                # compromise that may still miss the invariant subspace slightly (C09 allows that); filling it again can move it
                # by no more than that remaining distance
                S = FT.superset(rng, FT.minimal_sufficient(rng, system), 0.7)
                noisy = field.copy()
                noisy[:, S] += rng.normal(0, 0.03, size=(nrows, len(S)))
                r1 = fill_cij(FT.make_frame(noisy, S, rng, shuffle=True), system)
                r2 = fill_cij(r1.copy(deep=True), system)
                m1, m2 = FT.frame_moduli(r1), FT.frame_moduli(r2)
                x1 = numpy.zeros((nrows, 21))
                for nm_, col_ in m1.items():
                    x1[:, FT.NAMES.index(nm_)] = col_
                dist = max(numpy.abs(x1[r_] - laue.project(system, x1[r_])).max() for r_ in range(nrows))
                moved = max((numpy.abs(m2[nm_] - m1[nm_]).max() for nm_ in m1 if nm_ in m2), default=0.0)
                ctx.maxi("refill_move/remaining_distance(noisy tables)", moved / (dist + 1e-9))
                same = set(m1) == set(m2) and moved <= dist * 1.5 + 1e-9
                ctx.count("noisy_refills_judged")
            elif i % 2:
                r1 = fill_cij(FT.make_frame(field, S, rng, shuffle=True), system)
                r2 = fill_cij(r1.copy(deep=True), system)
                same = list(r1.columns) == list(r2.columns) and numpy.allclose(r1.to_numpy(float), r2.to_numpy(float), rtol=1e-12, atol=1e-9)
            else:
                data = ElastData(500.0, nrows, 100.0, [ElastVolumeData(600.0 - r, {c_(*T.VOIGT21[s]): float(field[r, s]) for s in S}) for r in range(nrows)], [])
                apply_symetry_on_elast_data(data, {"system": system})
                snap = [dict(v.static_elastic_modulus) for v in data.volumes]
                apply_symetry_on_elast_data(data, {"system": system})
                same = all(set(a) == set(v.static_elastic_modulus) and all(abs(a[k] - v.static_elastic_modulus[k]) <= 1e-9 + 1e-12 * abs(a[k]) for k in a)
                           for a, v in zip(snap, data.volumes))
        except Exception as exc:
            if classify_exception(exc) == "code" or isinstance(exc, Warning):
                ctx.violation(f"refill-raises:{type(exc).__name__}", f"{system}: {exc_text(exc)}", case_id)
            else:
                ctx.harness_error("C14.idem", exc)
            continue
        ctx.evaluation(f"refill|{'fill_cij' if i % 2 else 'apply_symetry'}", (system, i), sample={"system": system, "rows": nrows})
        ctx.count("history_steps_compared")
        if not same:
            ctx.violation("fill-not-idempotent", f"{system}: applying the symmetry filling to an already filled table changes it", case_id, {"system": system})
