"""C13 - results do not depend on how the same physical data are presented."""
import os
import shutil

import numpy

from ..e2e import E2E
from ..oracles import laue
from ..oracles import tensor as T
from ..workloads import files as WF
from ..trace import CallCounter
from ..runner import classify_exception, exc_site, exc_text, repo_dir

TOL = 1e-8


def snapshot(calc):
    """Everything compared between two presentations: {name: array}."""
    out = {}
    # the adiabatic correction divides by the QHA heat capacity, itself a second numerical difference of F(T,V): where C_V is
    # a vanishing fraction of its maximum (rows of a few kelvin) last-digit changes of F are amplified without bound
    cv = numpy.asarray(calc.qha_calculator.volume_base.heat_capacity, float)
    t_ = numpy.asarray(calc.t_array, float)
    # ... quantitatively: C_V = -T d2F/dT2 by differences of a free energy of magnitude |F| (it contains the static energy, tens to
    # hundreds of Ry) carries a rounding uncertainty of about 4 eps |F| T / DT^2; the correction itself is ~1e-2 of a modulus, so
    # it is compared where that uncertainty is below 1e-7 of C_V
    fmag = max(abs(float(v_.energy)) for v_ in calc.qha_input.volumes) + 1.0
    dt_ = float(numpy.min(numpy.abs(numpy.diff(t_)))) if len(t_) > 1 else 1.0
    with numpy.errstate(all="ignore"):
        cv_noise = 4 * 2.3e-16 * fmag * t_[:, None] / dt_ ** 2 / numpy.abs(cv)
    cv_ok = ((cv > 1e-4 * numpy.nanmax(cv)) & (cv_noise < 1e-7)) | (t_[:, None] == 0)
    for key in calc.modulus_keys:
        a, b = (int(x) for x in key.voigt)
        out[f"c{a}{b}t"] = numpy.asarray(calc.modulus_isothermal[key])
        with numpy.errstate(all="ignore"):
            out[f"c{a}{b}s"] = numpy.where(cv_ok, numpy.asarray(calc.modulus_adiabatic[key]), numpy.nan)
    vb, pb = calc.volume_base, calc.pressure_base
    # averages and velocities involve the inverse of the stiffness: they are compared only where the adiabatic stiffness is
    # positive definite and well conditioned (elsewhere - typically the far expanded-volume corner of the grid - 1/(sum s_ij)
    # can cross a pole and amplify last-digit differences without bound, which is outside the property's domain)
    nt, ntv = len(calc.t_array), len(calc.v_array)
    c66 = numpy.zeros((nt, ntv, 6, 6))
    for key in calc.modulus_keys:
        a, b = (int(x) for x in key.voigt)
        c66[..., a - 1, b - 1] = c66[..., b - 1, a - 1] = numpy.nan_to_num(numpy.asarray(calc.modulus_adiabatic[key]))
    ev = numpy.linalg.eigvalsh(c66)
    pd = (ev[..., 0] > 1e-2 * ev[..., -1]) & cv_ok
    for nm in ("bulk_modulus_voigt_reuss_hill", "shear_modulus_voigt_reuss_hill", "primary_velocities", "secondary_velocities"):
        try:
            with numpy.errstate(all="ignore"):
                out["tv:" + nm] = numpy.where(pd, numpy.asarray(getattr(vb, nm)), numpy.nan)
                if pd.all():
                    out["tp:" + nm] = numpy.asarray(getattr(pb, nm))
        except AttributeError:
            pass
    out["tp:volumes"] = numpy.asarray(pb.volumes)
    k0 = min(calc.modulus_keys, key=lambda k: tuple(int(x) for x in k.voigt))
    if cv_ok.all():
        out["tp:c_first_s"] = numpy.asarray(pb.modulus_adiabatic[k0])
    out["tp:c_first_t"] = numpy.asarray(pb.modulus_isothermal[k0])
    out["v_array"] = numpy.asarray(calc.v_array)
    out["tv:pressures"] = numpy.asarray(vb.pressures)
    return out


def worst_difference(base, other):
    worst = 0.0
    for nm, a in base.items():
        b = other.get(nm)
        if b is None or a.shape != b.shape:
            continue
        both = numpy.isfinite(a) & numpy.isfinite(b)
        if both.any():
            worst = max(worst, numpy.abs(a[both] - b[both]).max() / (numpy.abs(a[both]).max() + 1e-300))
    return worst


def compare(ctx, base, other, what, case_id, cls, data, TOL=None):
    """Returns True if equal to rounding."""
    TOL = globals()["TOL"] if TOL is None else TOL
    modset = lambda d: {k for k in d if not k.startswith("tp:") or k in ("tp:volumes", "tp:c_first_t")}
    if modset(base) != modset(other):
        ctx.violation(f"{what}:different-quantities", f"{cls}: result sets differ: {sorted(modset(base) ^ modset(other))[:6]}", case_id, data)
        return False
    other = {k: v for k, v in other.items() if k in base}
    base = {k: v for k, v in base.items() if k in other}
    worst, wname = 0.0, None
    for nm, a in base.items():
        b = other[nm]
        if a.shape != b.shape:
            ctx.violation(f"{what}:shape", f"{cls}: {nm} shape {b.shape} vs {a.shape}", case_id, data)
            return False
        fa, fb = numpy.isfinite(a), numpy.isfinite(b)
        both = fa & fb
        if both.any():
            s = numpy.abs(a[both]).max() + 1e-300
            e = numpy.abs(a[both] - b[both]).max() / s
            if e > worst:
                worst, wname = e, nm
        # finiteness pattern may differ only where C_V changes sign by rounding; count but do not judge
        if (fa != fb).any():
            ctx.count("finiteness_pattern_differs")
    ctx.maxi(f"presentation_err/tol[{what}]", worst / TOL)
    if not (worst <= TOL):
        ctx.violation(f"{what}:different-numbers", f"{cls}: {wname} changes by {worst:.3g} (relative) when the same data are presented with {what}", case_id, data)
        return False
    return True


def run(ctx):
    cc = CallCounter().start()
    try:
        with E2E(ctx, nonshear=False, tasks=False) as e2e:
            _run(ctx, e2e)
            if not ctx.quick or ctx.shard == 0:
                _shipped(ctx, e2e)
    finally:
        cc.stop()
    cc.report(ctx, ["nonshear.py:average_over_modes", "mode_gamma.py:interpolate_modes", "qha_adapter.py:QHACalculator.read_input",
                    "full_modulus.py:FullThermalElasticModulus.fit_modulus", "elast_dat.py:_find_modulus_key"])
    ctx.require("pairs_compared", 10)


def transformations(rng, ds):
    nv, nq, np_ = ds.freqs.shape
    out = []
    if nq > 2:
        out.append(("q-point-order", dict(q_order=[0] + list(1 + rng.permutation(nq - 1)))))
    perms = []
    for j in range(nq):
        if j == 0:
            perms.append(numpy.concatenate([[0, 1, 2], 3 + rng.permutation(np_ - 3)]).astype(int) if np_ > 3 else numpy.arange(np_))
        else:
            perms.append(rng.permutation(np_))
    if np_ > 4 or nq > 1:
        out.append(("mode-order", dict(mode_perm=perms)))
    out.append(("weight-scale", dict(weight_scale=float(10 ** rng.uniform(-3, 3)))))
    cols = [ds.columns[int(i)] for i in rng.permutation(len(ds.columns))]
    out.append(("static-column-order+uppercase", dict(column_order=cols, column_spelling=lambda a, b: "C%d%d" % (a, b))))
    out.append(("static-column-spelling", dict(column_spelling=lambda a, b: "c_%d%d" % (a, b) if (a + b) % 2 else "c%d%d%d%d" % (T.VOIGT_TO_PAIR[a] + T.VOIGT_TO_PAIR[b]))))
    ns = len(ds.static_volumes)
    out.append(("static-row-order", dict(row_order=list(rng.permutation(ns)))))
    out.append(("volume-blocks-reversed", dict(volume_order=list(range(nv))[::-1])))
    out.append(("volume-blocks-shuffled", dict(volume_order=list(rng.permutation(nv)))))
    if nq > 2:
        out.append(("q+modes+weights+columns+rows", dict(q_order=[0] + list(1 + rng.permutation(nq - 1)), mode_perm=perms,
                                                        weight_scale=float(10 ** rng.uniform(-2, 2)), column_order=cols, row_order=list(rng.permutation(ns)))))
    return out


def _run(ctx, e2e):
    n = ctx.pick(24, 5000)
    for i in range(n):
        case_id = f"ds{i}"
        if not ctx.mine(i, case_id):
            continue
        rng = ctx.rng("ds", i)
        system = laue.SYSTEMS[i % 9]
        interp = WF.INTERPOLATORS[(i // 9 + i) % 7]
        nv = int(rng.integers(4, 11))
        orders = WF.admissible_orders(interp, nv)
        order = int(rng.choice(orders))
        ds = WF.gen_dataset(rng, system=system, nv=nv, nq=int(rng.integers(1, 6)), natoms=int(rng.integers(1, 5)),
                            # metamorphic runs need no closed form: generic (non power-law) spectra make the choice of interpolation
                            # nodes matter, so that a presentation-dependent node selection becomes visible
                            data_class="generic" if i % 3 else ("poly3" if (interp == "lsq_poly" and order >= 3) else "power-law"), lattice=bool(i % 2))
        cfg = WF.gen_settings(rng, ds, interpolator=interp, order=order, nt=int(rng.integers(2, 7)), ntv=int(rng.integers(8, 41)))
        wd = e2e.workdir(case_id)
        WF.write_dataset(ds, cfg, wd)
        try:
            p_lo, p_hi, _ = WF.probe_pressure_range(ds, cfg, wd)
        except Exception as exc:
            ctx.inconc(f"QHA probe failed: {exc!r}")
            continue
        if not (p_hi - p_lo > 1.0):
            continue
        WF.place_pressures(rng, cfg, p_lo, p_hi)
        path = WF.write_dataset(ds, cfg, wd)
        base_calc, exc = e2e.run(path, case_id)
        if exc is not None:
            e2e.report_construction_failure(exc, case_id, "baseline", {"config": cfg})
            continue
        base = snapshot(base_calc)
        base_in = (list(base_calc.qha_input.weights), [v.volume for v in base_calc.qha_input.volumes],
                   [list(q.modes) for q in base_calc.qha_input.volumes[0].q_points], list(base_calc.elast_data.volumes[0].static_elastic_modulus.keys()),
                   [v.volume for v in base_calc.elast_data.volumes])
        # what "rounding" means for this data set: the same files with all weights multiplied by 1 + 2^-48 (a change in the last
        # digits of the normalised weights only); the tolerance is the usual 1e-8, or 30 x the response to that noise if larger
        tol_case = TOL
        try:
            calc_n, exc_n = e2e.run(WF.write_dataset(ds, cfg, e2e.workdir(case_id + "-noise"), weight_scale=1.0 + 2.0 ** -48), case_id)
            if exc_n is None:
                noise = worst_difference(base, snapshot(calc_n))
                ctx.maxi("rounding_noise_response", noise)
                tol_case = max(TOL, 30 * noise)
        except Exception as exc_:
            ctx.harness_error("C13.noise", exc_)
        for what, kw in transformations(rng, ds):
            wd2 = e2e.workdir(case_id + "-t")
            path2 = WF.write_dataset(ds, cfg, wd2, **kw)
            calc2, exc = e2e.run(path2, case_id)
            cls = f"{what}|{interp}"
            data = {"transformation": what, "interpolator": interp, "order": order, "system": system, "nv": nv, "nq": ds.nq, "np": ds.np}
            if what.startswith("volume-blocks"):
                vo = kw["volume_order"]
                trivial = vo == sorted(vo)
                ctx.evaluation(cls, (i, what, tuple(vo)), nontrivial=not trivial, sample=data)
                if exc is not None:
                    if classify_exception(exc) in ("code",) or isinstance(exc, (RuntimeError, ValueError)):
                        ctx.count("volume_reorder_rejected")
                    else:
                        ctx.harness_error("C13.volume-order", exc)
                    continue
                try:
                    snap2 = snapshot(calc2)
                except Exception as exc2:
                    if classify_exception(exc2) == "code":
                        ctx.count("volume_reorder_rejected_late")     # an error while reading results is still "rejected", not wrong numbers
                    else:
                        ctx.harness_error("C13.snapshot", exc2)
                    continue
                ctx.count("volume_reorder_accepted")
                if compare(ctx, base, snap2, "volume-block-order", case_id, cls, data, TOL=tol_case):
                    ctx.count("pairs_compared")
                continue
            if exc is not None:
                ctx.evaluation(cls, (i, what), sample=data)
                e2e.report_construction_failure(exc, case_id, what, data, prefix="re-presented-data")
                continue
            now_in = (list(calc2.qha_input.weights), [v.volume for v in calc2.qha_input.volumes],
                      [list(q.modes) for q in calc2.qha_input.volumes[0].q_points], list(calc2.elast_data.volumes[0].static_elastic_modulus.keys()),
                      [v.volume for v in calc2.elast_data.volumes])
            reached = now_in != base_in or what == "static-column-spelling"
            ctx.evaluation(cls, (i, what), nontrivial=bool(reached), sample=data)
            try:
                snap2 = snapshot(calc2)
            except Exception as exc2:
                if classify_exception(exc2) == "code":
                    ctx.violation(f"{what}:reading-results-raises:{type(exc2).__name__}:{exc_site(exc2)}", f"{cls}: {exc_text(exc2)}", case_id, data)
                else:
                    ctx.harness_error("C13.snapshot", exc2)
                continue
            if compare(ctx, base, snap2, what, case_id, cls, data, TOL=tol_case):
                ctx.count("pairs_compared")


def _shipped(ctx, e2e):
    """The shipped akimotoite example, re-presented (thorough tier and one quick shard)."""
    from ..oracles import fileio as F
    src = os.path.join(repo_dir(), "examples", "akimotoite")
    if not os.path.exists(os.path.join(src, "input01")):
        return
    case_id = "akimotoite"
    wd = e2e.workdir("akimotoite-base")
    for f in ("input01", "input02", "settings.yaml"):
        shutil.copy(os.path.join(src, f), wd)
    base_calc, exc = e2e.run(os.path.join(wd, "settings.yaml"), case_id)
    ctx.evaluation("shipped-akimotoite|baseline", ("akimotoite",), sample={"example": "akimotoite"})
    if exc is not None:
        e2e.report_construction_failure(exc, case_id, "shipped-example")
        return
    base = snapshot(base_calc)
    own = F.read_input01(os.path.join(src, "input01"))
    nv, nq, np_ = own["counts"][:3]
    rng = ctx.rng("akimotoite")
    freqs = numpy.array([[q[1] for q in v[3]] for v in own["volumes"]])
    vols = numpy.array([v[1] for v in own["volumes"]])
    ens = numpy.array([v[2] for v in own["volumes"]])
    prs = numpy.array([v[0] for v in own["volumes"]])
    qc = numpy.array([q[0] for q in own["volumes"][0][3]])
    wts = numpy.array([w[1] for w in own["weights"]])
    qo = [0] + list(1 + rng.permutation(nq - 1))
    perms = [numpy.concatenate([[0, 1, 2], 3 + rng.permutation(np_ - 3)]) if j == 0 else rng.permutation(np_) for j in range(nq)]
    f2 = freqs[:, qo, :]
    f2 = numpy.stack([f2[:, j, perms[j]] for j in range(nq)], axis=1)
    wd2 = e2e.workdir("akimotoite-t")
    for f in ("input02", "settings.yaml"):
        shutil.copy(os.path.join(src, f), wd2)
    F.write_input01(os.path.join(wd2, "input01"), vols, ens, f2, qc[qo], (wts * 7.5)[qo], nm=own["counts"][3], na=own["counts"][4], pressures=prs, float_fmt="%.14f")
    calc2, exc = e2e.run(os.path.join(wd2, "settings.yaml"), case_id)
    ctx.evaluation("shipped-akimotoite|q+modes+weights", ("akimotoite", "t"), sample={"example": "akimotoite", "transformation": "q order, mode order, weights x7.5"})
    if exc is not None:
        e2e.report_construction_failure(exc, case_id, "shipped-example-re-presented", prefix="re-presented-data")
        return
    if compare(ctx, base, snapshot(calc2), "q+modes+weights(shipped)", case_id, "akimotoite", {"example": "akimotoite"}):
        ctx.count("pairs_compared")
